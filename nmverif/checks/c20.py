"""C20 - parse and rebuild terminate quickly and fail only in documented ways."""

import math
import random
import time

from nmverif.checks import _editbase as B
from nmverif.gen import canon, damage, nixgen, trivia
from nmverif.monitor import sysmon
from nmverif.oracle import cst
from nmverif.worker import quarantined, wal, wal_text

PROPERTY = "C20"
LEVEL = "exploration"
SHARD_TIMEOUT = 900
DEATH_IS_VIOLATION = True
FLOORS = {"nontrivial": 10000, "observed": {"families": 300, "crash_corpus.texts": 10000}}
RULE = ("(a) crash freedom: damaged programs (G-damage at every token / sampled bytes), random "
        "Unicode text, token soup over the Nix vocabulary, valid G-nix programs, long files, up "
        "to 64 KiB and nesting 64, long realistic documents, and the whole construct x gap x trivia "
        "grid placed below line 300 and right of column 300: parse+rebuild must return or raise ValueError / NixSyntaxError, "
        "nothing else, and the worker must survive (write-ahead log attributes a death to its "
        "input); (b) complexity: for every depth-parameterised family (hand-written: curried lambdas, formals "
        "lambdas, nested sets / lists / parentheses / let / with / assert / if / calls / selects, "
        "operator chains, long files, long lists, long strings, deep attrpaths, comment-heavy "
        "files; generated: 58 unary wrapper forms in one-line and broken-line spellings nested d times, and "
        "every ordered pair of 20 core forms alternating) logical work = activations of every rebuild / from_cst code object counted with "
        "sys.monitoring at depths 4, 8, 16, 32: steps(2d) must stay below steps(d)^2/4 and the "
        "estimated degree log2(steps(2d)/steps(d)) <= 4.  non-trivial = a text that reached "
        "from_cst (not pass-through) or any family point; distinct by content hash")
ASSUMPTIONS = [
    "logical steps (sys.monitoring PY_START counts) decide, wall clock is only a watchdog (60 s per family point -> inconclusive for that point)",
    "documented errors: ValueError and subclasses, NixSyntaxError",
]

OPS = ["+", "-", "*", "/", "++", "//", "&&", "||", "->", "==", "<"]


def families():
    fam = {
        "curried-lambda": lambda d: " ".join(f"a{i}:" for i in range(d)) + " x",
        "formals-lambda": lambda d: " ".join("{ a%d, b }:" % i for i in range(d)) + " x",
        "lambda-binding": lambda d: "{ f = " + " ".join(f"a{i}:" for i in range(d)) + " x; }",
        "nested-set": lambda d: "".join("{ a = " for _ in range(d)) + "1" + "; }" * d,
        "nested-set-multiline": lambda d: "".join("{\n" + "  " * i + "a = " for i in range(d)) + "1" + ";\n}" * d,
        "nested-list": lambda d: "[ " * d + "1" + " ]" * d,
        "nested-paren": lambda d: "(" * d + "1" + ")" * d,
        "nested-let": lambda d: "".join(f"let a{i} = {i}; in " for i in range(d)) + "x",
        "nested-with": lambda d: "".join(f"with a{i}; " for i in range(d)) + "x",
        "nested-assert": lambda d: "".join(f"assert a{i}; " for i in range(d)) + "x",
        "nested-if": lambda d: "".join(f"if c{i} then {i} else " for i in range(d)) + "x",
        "nested-if-cond": lambda d: "".join("if " for _ in range(d)) + "c" + " then 1 else 2" * d,
        "nested-call": lambda d: "".join("f (" for _ in range(d)) + "x" + ")" * d,
        "call-chain": lambda d: "f " + " ".join(f"a{i}" for i in range(d)),
        "select-chain": lambda d: "x" + "".join(f".a{i}" for i in range(d)),
        "select-or-nest": lambda d: "".join(f"x.a{i} or " for i in range(d)) + "y",
        "has-attr-chain": lambda d: "x ? " + ".".join(f"a{i}" for i in range(d)),
        "unary-nest": lambda d: "!" * d + "x",
        "neg-paren-nest": lambda d: "-(" * d + "x" + ")" * d,
        "long-file": lambda d: "{\n" + "".join(f"  k{i} = {i};\n" for i in range(d * 40)) + "}\n",
        "long-list": lambda d: "[\n" + "".join(f"  e{i}\n" for i in range(d * 40)) + "]\n",
        "long-string": lambda d: '"' + "lorem ipsum " * (d * 40) + '"',
        "long-istring": lambda d: "''\n" + "  line of text\n" * (d * 40) + "''",
        "deep-attrpath": lambda d: "{ " + ".".join(f"a{i}" for i in range(d)) + " = 1; }",
        "attrpath-family": lambda d: "{\n" + "".join(f"  a.b{i}.c = {i};\n" for i in range(d * 10)) + "}\n",
        "comment-heavy": lambda d: "{\n" + "".join(f"  # c{i}\n  k{i} = {i}; # e{i}\n" for i in range(d * 20)) + "}\n",
        "inherit-long": lambda d: "{ inherit " + " ".join(f"a{i}" for i in range(d * 10)) + "; }",
        "formals-long": lambda d: "{ " + ", ".join(f"a{i} ? {i}" for i in range(d * 5)) + " }: x",
        "interp-nest": lambda d: "".join('"a${' for _ in range(d)) + "x" + '}b"' * d,
        "list-of-sets": lambda d: "[ " + " ".join("{ a = [ 1 2 ]; }" for _ in range(d * 10)) + " ]",
        "let-lambda-mix": lambda d: "".join(f"let a{i} = 1; in b{i}: " for i in range(d)) + "x",
        "with-list-value": lambda d: "{ k = " + "".join("with p; [ (" for _ in range(d)) + "x" + ") ]" * d + "; }",
    }
    for op in OPS:
        fam[f"chain-left{op}"] = (lambda o: (lambda d: f" {o} ".join(f"a{i}" for i in range(d + 1))))(op)
    for op in ["++", "//", "->", "+"]:
        fam[f"chain-right-paren{op}"] = (lambda o: (lambda d: "".join(f"a{i} {o} (" for i in range(d)) + "z" + ")" * d))(op)
    return fam


# Generated nesting families: every unary "wrapper" form (prefix, suffix) nested d times around
# a leaf, in a one-line and in broken-line spellings, and every ordered pair of a core subset
# alternating (W1(W2(W1(...)))).  Forms that the grammar rejects at depth 4 are skipped.
WRAPPERS = [
    ("set", "{ a = ", "; }"), ("set-nl", "{\n a = ", ";\n}"), ("set-value-nl", "{ a =\n", "; }"),
    ("rec", "rec { a = ", "; }"), ("list", "[ ", " ]"), ("list-nl", "[\n", "\n]"),
    ("paren", "(", ")"), ("paren-nl", "(\n", "\n)"),
    ("let-body", "let a = 1; in ", ""), ("let-body-nl", "let\n  a = 1;\nin\n", ""),
    ("let-value", "let a = ", "; in a"), ("let-value-nl", "let\n  a =\n", ";\nin\na"),
    ("with-body", "with a; ", ""), ("with-body-nl", "with a;\n", ""), ("with-env", "with ", "; x"),
    ("with-env-nl", "with\n", ";\nx"),
    ("assert-body", "assert a; ", ""), ("assert-body-nl", "assert a;\n", ""),
    ("assert-cond", "assert ", "; x"), ("assert-cond-paren-nl", "assert\n(", "); x"),
    ("if-cond", "if ", " then 1 else 2"), ("if-then", "if c then ", " else 2"),
    ("if-else", "if c then 1 else ", ""), ("if-else-nl", "if c\nthen 1\nelse\n", ""),
    ("lambda", "a: ", ""), ("lambda-nl", "a:\n", ""), ("formals", "{ a }: ", ""),
    ("formals-nl", "{ a }:\n", ""), ("formals-default", "{ a ? ", " }: x"), ("at-pattern", "n@{ a }: ", ""),
    ("call-arg", "f (", ")"), ("call-arg-tight", "f(", ")"), ("call-set", "f { a = ", "; }"),
    ("call-set-tight", "f{ a = ", "; }"), ("call-set-nl", "f {\n a = ", ";\n}"), ("call-fn", "(", ") x"),
    ("call-list", "f [ ", " ]"), ("select-base", "(", ").a"), ("select-or", "x.a or (", ")"),
    ("inherit-from", "{ inherit (", ") a; }"), ("inherit-from-nl", "{\n inherit (", ") a;\n}"),
    ("not", "!", ""), ("neg-paren", "-(", ")"), ("binop-left", "(", ") + 1"), ("binop-right", "1 + (", ")"),
    ("update-right", "a // ", ""), ("concat-nl", "a\n++ ", ""), ("has-attr", "(", ") ? a"),
    ("interp", '"${', '}"'), ("istr-interp", "''${", "}''"), ("dyn-attr", "{ ${", "} = 1; }"),
    ("list-in-set", "{ a = [ ", " ]; }"), ("set-in-list", "[ { a = ", "; } ]"),
    ("list-in-set-nl", "{\n a = [\n", "\n ];\n}"), ("comment-set", "{ # c\n a = ", "; }"),
    ("comment-list", "[ # c\n", " ]"), ("block-comment-paren", "( /* c */ ", ")"),
]
# binary operators with the line break before / after / around the operator, right-nested with
# and (for the right-associative ones) without parentheses, and left-nested
for _op in ["+", "++", "//", "->", "&&", "==", "-"]:
    for _tag, _l, _r in (("nl-after", " ", "\n"), ("nl-before", "\n", " "), ("nl-both", "\n", "\n")):
        WRAPPERS.append((f"binop{_op}:{_tag}:right-paren", f"a{_l}{_op}{_r}(", ")"))
        WRAPPERS.append((f"binop{_op}:{_tag}:left-paren", "(", f"){_l}{_op}{_r}b"))
        if _op in ("++", "//", "->"):
            WRAPPERS.append((f"binop{_op}:{_tag}:right", f"a{_l}{_op}{_r}", ""))
PAIR_CORE = ["set", "set-nl", "list", "list-nl", "paren", "let-body", "let-value", "with-body-nl",
             "with-env", "assert-cond-paren-nl", "if-cond", "lambda", "formals", "call-arg-tight",
             "call-set", "select-base", "inherit-from", "binop-right", "interp", "comment-set"]


def generated_families():
    fam = {}
    table = {n: (p, q) for n, p, q in WRAPPERS}
    for n, p, q in WRAPPERS:
        fam["nest:" + n] = (lambda p, q: (lambda d: p * d + "x" + q * d))(p, q)
    for a in PAIR_CORE:
        for b in PAIR_CORE:
            if a == b:
                continue
            pa, qa = table[a]
            pb, qb = table[b]
            # d counts wrapper applications in total (alternating a, b, a, ...)
            def make(d, pa=pa, qa=qa, pb=pb, qb=qb):
                pre, suf = "", ""
                for i in range(d):
                    if i % 2 == 0:
                        pre += pa
                        suf = qa + suf
                    else:
                        pre += pb
                        suf = qb + suf
                return pre + "x" + suf
            fam[f"alt:{a}|{b}"] = make
    return fam


def all_families():
    fam = families()
    fam.update(generated_families())
    return fam


def step_codes():
    import nix_manipulator.mapping  # noqa: F401 - make sure all expression modules are loaded
    return sysmon.code_objects_named({"rebuild", "from_cst", "rebuild_scoped", "_render_output",
                                      "_render_argument_set", "tree_sitter_node_to_expression"})


class PointTimeout(Exception):
    pass


def measure(text: str, codes, limit_s: int = 45):
    """Steps and wall time of one parse+rebuild; a wall-clock watchdog (SIGALRM) turns a
    run-away point into PointTimeout (inconclusive for that point, never a verdict)."""
    import signal
    from nix_manipulator import parse

    def on_alarm(signum, frame):
        raise PointTimeout()

    old = signal.signal(signal.SIGALRM, on_alarm)
    signal.alarm(limit_s)
    t0 = time.time()
    try:
        with sysmon.StepCounter(codes) as sc:
            doc = parse(text)
            out = doc.rebuild()
    finally:
        signal.alarm(0)
        signal.signal(signal.SIGALRM, old)
    return sc.count, time.time() - t0, doc.contains_error


def soup(rng, n):
    vocab = ["let", "in", "with", "assert", "if", "then", "else", "rec", "inherit", "or", "{", "}",
             "[", "]", "(", ")", ";", ":", ",", "=", "@", "?", ".", "...", "${", "''", '"', "a", "b",
             "x1", "1", "2.5", "./p", "<n>", "+", "-", "*", "/", "++", "//", "&&", "||", "->", "==",
             "!=", "<", ">", "!", "# c\n", "/* c */", "\n", "  "]
    return " ".join(rng.choice(vocab) for _ in range(n))


def unicode_text(rng, n):
    pools = [range(32, 127), range(0xA0, 0x180), range(0x370, 0x400), range(0x4E00, 0x4E80),
             [0x1F600, 0x2028, 0xFEFF, 0x0301, 0x200D, 9, 10, 13]]
    return "".join(chr(rng.choice(list(rng.choice(pools)))) for _ in range(n))


def plan(tier, seed):
    specs = [{"kind": "families", "part": p, "parts": 32, "max_depth": 32} for p in range(32)]
    # every construct x gap x trivia class again, but placed below line 300 and right of column
    # 300 (row / column numbers beyond 256 in every code path that reads tree-sitter points)
    bparts = 6 if tier == "quick" else 16
    for p_ in range(bparts):
        specs.append({"kind": "below-256", "part": p_, "parts": bparts, "stride": 6 if tier == "quick" else 1})
    n = 10 if tier == "quick" else 58
    for i in range(n):
        specs.append({"kind": "corpus", "seed": seed * 1811 + i * 67867967 + 31,
                      "n": 2500 if tier == "quick" else 30000})
    return specs


def run_shard(spec):
    from nix_manipulator import parse
    from nix_manipulator.exceptions import NixSyntaxError
    res = B.new_result()
    obs = res["observed"]
    nontriv = set()
    if spec["kind"] == "families":
        obs["families"] = {}
        codes = step_codes()
        obs["instrumented_code_objects"] = len(codes)
        fams = all_families()
        for n, (name, make) in enumerate(sorted(fams.items())):
            if n % spec["parts"] != spec["part"]:
                continue
            steps = {}
            walls = {}
            for d in (4, 8, 16, 32):
                if d > spec["max_depth"]:
                    break
                text = make(d)
                if cst.has_error(text):
                    steps = {}
                    break
                wal_text(text)
                try:
                    s, w, err = measure(text, codes)
                except RecursionError:
                    break
                except PointTimeout:
                    res["inconclusive"] += 1
                    obs.setdefault("family_points_timed_out", []).append(f"{name}@{d}")
                    break
                except Exception as exc:  # noqa: BLE001
                    B.record(res, {"effect": "family-raised", "family": name, "exc": type(exc).__name__},
                             {"family": name, "depth": d}, str(exc)[:200])
                    break
                steps[d] = s
                walls[d] = round(w, 4)
                res["evaluations"] += 1
                nontriv.add(B.h64(text))
                if w > 60:
                    res["inconclusive"] += 1
                    break
                # stop early once the growth is clearly super-polynomial (do not burn minutes)
                prev = steps.get(d // 2)
                if d >= 8 and prev and prev >= 8 and (
                        (s >= prev ** 2 / 4 and prev >= 16) or math.log2(s / prev) > 4):
                    break
            obs["families"][name] = {"steps": {str(k): v for k, v in steps.items()}, "wall_s": {str(k): v for k, v in walls.items()}}
            for d in (4, 8, 16):
                if d in steps and 2 * d in steps and steps[d] >= 8:
                    a, b = steps[d], steps[2 * d]
                    degree = math.log2(b / a) if a else 0
                    if b >= a * a / 4 and a >= 16 or degree > 4:
                        B.record(res, {"effect": "superlinear-growth", "family": name,
                                       "kind": "squares" if (b >= a * a / 4 and a >= 16) else "degree>4"},
                                 {"family": name, "text_d": make(d), "steps": {str(k): v for k, v in steps.items()}},
                                 f"steps({d})={a} steps({2 * d})={b} degree={degree:.2f}")
                        break
        res["samples"] = [{"family": k, **v} for k, v in list(obs["families"].items())[:3]]
        res["nontrivial"] = sorted(nontriv)
        return res

    if spec["kind"] == "below-256":
        from nmverif.engines import rt
        obs["crash_corpus"] = {"texts": 0, "structural": 0, "pass_through": 0, "sources": {}}
        obs["exceptions"] = {}
        pad = "".join(f"  p{i} = {i};\n" for i in range(300))
        n = 0
        for case in rt.grid_items(spec["part"], spec["parts"]):
            n += 1
            if case.text is None or n % spec["stride"]:
                continue
            body = case.text
            text = "{\n" + pad + " " * 300 + "k = (" + body + "\n  );\n}\n"
            if cst.has_error(text):
                continue
            if quarantined(text):
                B.record(res, {"effect": "interpreter-death", "source": "below-256"}, {"text": text[-400:]},
                         "input killed the interpreter in an earlier attempt")
                continue
            wal_text(text)
            res["evaluations"] += 1
            obs["crash_corpus"]["texts"] += 1
            B.bump(obs["crash_corpus"]["sources"], "below-256")
            try:
                doc = parse(text)
                doc.rebuild()
                if doc.contains_error:
                    obs["crash_corpus"]["pass_through"] += 1
                else:
                    obs["crash_corpus"]["structural"] += 1
                    nontriv.add(B.h64(body))
            except (ValueError, NixSyntaxError) as exc:
                B.bump(obs["exceptions"], type(exc).__name__)
            except Exception as exc:  # noqa: BLE001
                B.bump(obs["exceptions"], type(exc).__name__)
                B.record(res, {"effect": "internal-exception", "exc": type(exc).__name__, "source": "below-256",
                               "where": _where(exc)}, {"text": text[-600:]}, f"{type(exc).__name__}: {str(exc)[:200]}")
        res["nontrivial"] = sorted(nontriv)
        return res

    # ---- crash-freedom corpus
    rng = random.Random(spec["seed"])
    obs["crash_corpus"] = {"texts": 0, "structural": 0, "pass_through": 0, "sources": {}}
    obs["exceptions"] = {}
    cov = sysmon.FunctionCoverage()
    cov.start()

    def feed(text: str, source: str):
        if quarantined(text):
            B.record(res, {"effect": "interpreter-death", "source": source}, {"text": text},
                     "input killed the interpreter in an earlier attempt")
            return
        wal_text(text)
        res["evaluations"] += 1
        obs["crash_corpus"]["texts"] += 1
        B.bump(obs["crash_corpus"]["sources"], source)
        try:
            doc = parse(text)
            out = doc.rebuild()
            if doc.contains_error:
                obs["crash_corpus"]["pass_through"] += 1
            else:
                obs["crash_corpus"]["structural"] += 1
                nontriv.add(B.h64(text))
        except (ValueError, NixSyntaxError) as exc:
            B.bump(obs["exceptions"], type(exc).__name__)
            nontriv.add(B.h64(text))
        except RecursionError:
            B.bump(obs["exceptions"], "RecursionError")
            depthish = max(text.count("("), text.count("["), text.count("{"))
            if depthish <= 64:
                B.record(res, {"effect": "internal-exception", "exc": "RecursionError", "source": source},
                         {"text": text[:4000]}, "recursion limit within the nesting bound")
        except Exception as exc:  # noqa: BLE001
            B.bump(obs["exceptions"], type(exc).__name__)
            B.record(res, {"effect": "internal-exception", "exc": type(exc).__name__, "source": source,
                           "where": _where(exc)},
                     {"text": text[:4000]}, f"{type(exc).__name__}: {str(exc)[:200]}")

    n = spec["n"]
    for i in range(n):
        k = rng.random()
        if k < 0.30:
            toks, glue = nixgen.generate(rng, max_depth=rng.choice([2, 4, 6]), budget=rng.choice([20, 80, 200]))
            r = trivia.choose_and_render(toks, glue, rng, "hostile", density=rng.choice([0.05, 0.3]))
            if r is not None:
                feed(r.text, "valid-program")
        elif k < 0.55:
            g = canon.DocGen(rng, max_entries=4)
            base = canon.render(g.doc())
            ds = list(damage.damaged_texts(base, rng, max_per_op=2, every_byte=True))
            for _op, _pos, data in rng.sample(ds, min(6, len(ds))):
                try:
                    feed(data.decode("utf-8"), "damaged")
                except UnicodeDecodeError:
                    pass
        elif k < 0.75:
            feed(soup(rng, rng.choice([3, 10, 40, 200])), "token-soup")
        elif k < 0.93:
            feed(unicode_text(rng, rng.choice([1, 5, 50, 400])), "unicode")
        else:
            # larger texts (up to 64 KiB)
            if rng.random() < 0.5:
                big = "{\n" + "".join(f"  k{j} = {soup(rng, 3)!r};\n" for j in range(rng.choice([200, 1500]))) + "}\n"
                feed(big[:65536], "large")
            else:
                # long realistic files: hundreds of lines with every binding form, inherits and
                # comments well past line 256 (row / column numbers beyond the small-int cache)
                g = canon.DocGen(rng, max_entries=rng.choice([120, 300]), depth=3, comment_rate=rng.choice([1.0, 4.0]))
                big = canon.render(g.doc())
                if rng.random() < 0.5:
                    big = big.replace(";\n", ";" + " " * 270 + "# far right\n", 3)
                feed(big[:200000], "large-document")
                feed(big[:200000], "large-document")   # twice: damage to the heap shows later
    cov.stop()
    obs["functions_entered_count"] = len(cov.entered)
    res["nontrivial"] = sorted(nontriv)
    res["samples"] = [{"source": s, "count": c} for s, c in obs["crash_corpus"]["sources"].items()][:4]
    return res


def _where(exc) -> str:
    tb = exc.__traceback__
    last = None
    while tb is not None:
        fn = tb.tb_frame.f_code.co_filename
        if "nix_manipulator" in fn:
            last = f"{fn.split('nix_manipulator/')[-1]}:{tb.tb_frame.f_code.co_name}"
        tb = tb.tb_next
    return last or "?"


def finalize(merged, tier):
    # signal deaths confirmed by the runner become witnesses keyed by mechanism
    for d in merged.get("deaths", []):
        merged["witnesses"].append({"key": {"effect": "interpreter-death", "signal": str(d.get("signal"))},
                                    "case": {"text": d.get("text", "")[:6000]},
                                    "detail": "worker died by signal; death reproduced on this input alone"})


def replay(case):
    from nix_manipulator import parse
    if "text_d" in case:
        codes = step_codes()
        fam = all_families()[case["family"]]
        a = measure(fam(8), codes)[0]
        b = measure(fam(16), codes)[0]
        if b >= a * a / 4 and a >= 16:
            return [{"key": {"effect": "superlinear-growth", "family": case["family"]}, "detail": f"{a} -> {b}"}]
        return []
    try:
        parse(case["text"]).rebuild()
    except ValueError:
        pass
    except Exception as exc:  # noqa: BLE001
        return [{"key": {"effect": "internal-exception", "exc": type(exc).__name__}, "detail": str(exc)[:200]}]
    return []
