"""C06 - rebuilt text is stable: formatting it again changes nothing."""

from nmverif.checks import _rtbase
from nmverif.oracle import roundtrip as R

PROPERTY = "C06"
LEVEL = "exploration"
SHARD_TIMEOUT = 900
FLOORS = {"nontrivial": 3000}
RULE = ("inputs restricted (decided on the input CST) to programs whose comments are alone on a "
        "line or last on a line: G-grid + G-nix 'canonical-ish'/'line-comments'/'hostile' with "
        "arbitrary non-RFC whitespace; three passes parse->rebuild; non-trivial = structural "
        "path and in the domain; distinct by content hash.  Edit outputs are covered by the "
        "edit engine leg (see evidence.observed.edit_outputs)")
ASSUMPTIONS = [
    "domain membership decided from the input CST: no code token follows a comment on the line where it ends",
    "byte equality of pass 1 and pass 2 (and pass 3)",
]


def judge(ob, rin, rout):
    if ob.out is None:
        return []
    ws = R.judge_stability(ob)
    if not ws and ob.out3 is not None and ob.out2 is not None and ob.out3 != ob.out2:
        ws.append({"effect": "unstable-third-pass"})
    return ws


def nontrivial(rin, ob):
    return ob.out is not None and not ob.passthrough


def plan(tier, seed):
    return _rtbase.standard_plan(tier, seed, modes=["line-comments", "canonical-ish", "hostile"],
                                 n_random_quick=25000, n_random_thorough=600000, adj=True)


def run_shard(spec):
    return _rtbase.run(spec, judge, passes=3, nontrivial=nontrivial, want_out_read=False,
                       domain=R.in_c06_domain)


def replay(case):
    return _rtbase.replay_case(case, judge, 3)
