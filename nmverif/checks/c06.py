"""C06 - rebuilt text is stable: formatting it again changes nothing."""

from nmverif.checks import _rtbase
from nmverif.oracle import roundtrip as R

PROPERTY = "C06"
LEVEL = "exploration"
SHARD_TIMEOUT = 900
FLOORS = {"nontrivial": 3000}
RULE = ("inputs restricted (decided on the input CST) to programs whose comments are alone on a "
        "line or last on a line: G-grid + G-nix 'canonical-ish'/'line-comments'/'hostile' with "
        "arbitrary non-RFC whitespace; three passes parse->rebuild; non-trivial = structural "
        "path and in the domain; distinct by content hash.  Edit outputs: histories of 1-6 set / rm "
        "(plain, nested, dotted, scoped paths; one-line and multi-line values) on canonical and "
        "non-canonical G-doc documents (incl. a call whose argument sits on its own line); every "
        "emitted text that is in the domain must come back unchanged from parse + rebuild "
        "(evidence.observed.edit_outputs)")
ASSUMPTIONS = [
    "domain membership decided from the input CST: no code token follows a comment on the line where it ends",
    "byte equality of pass 1 and pass 2 (and pass 3)",
]


def judge(ob, rin, rout):
    if ob.out is None:
        return []
    ws = R.judge_stability(ob)
    if not ws and ob.out3 is not None and ob.out2 is not None and ob.out3 != ob.out2:
        ws.append({"effect": "unstable-third-pass"})
    return ws


def nontrivial(rin, ob):
    return ob.out is not None and not ob.passthrough


def plan(tier, seed):
    specs = _rtbase.standard_plan(tier, seed, modes=["line-comments", "canonical-ish", "hostile"],
                                  n_random_quick=25000, n_random_thorough=600000, adj=True)
    for i in range(8 if tier == "quick" else 32):
        specs.append({"kind": "edit-outputs", "seed": seed * 8191 + i * 2147483 + 77,
                      "docs": 250 if tier == "quick" else 2500})
    return specs


def run_edit_outputs(spec):
    """The text emitted by every successful set / rm of an edit history must be a fixed point."""
    import random
    from nmverif.checks import _editbase as B
    from nmverif.engines import edit as E
    from nmverif.oracle import attrtree as A
    from nmverif.oracle import cst
    from nix_manipulator import parse
    rng = random.Random(spec["seed"])
    res = B.new_result()
    obs = res["observed"]
    obs["edit_outputs"] = {"judged": 0, "out_of_domain": 0, "documents": 0, "noncanonical_documents": 0}
    nontriv = set()
    for di in range(spec["docs"]):
        text, doc, canonical = B.make_document(rng)
        obs["edit_outputs"]["documents"] += 1
        if not canonical:
            obs["edit_outputs"]["noncanonical_documents"] += 1
        try:
            live = E.LiveDoc(text)
        except Exception:  # noqa: BLE001
            continue
        hist = []
        for si in range(rng.randrange(1, 7)):
            dv = A.decode(live.text)
            if dv.error or dv.target is None:
                break
            ops = E.choose_ops(rng, dv, 1, failing=0.0)
            if not ops:
                break
            op = ops[0]
            before = live.text
            r = live.apply(op)
            hist.append([op.kind, op.npath, op.value])
            res["evaluations"] += 1
            B.bump(obs["ops"], op.kind)
            B.bump(obs["op_classes"], op.cls)
            if r.exc_type is not None or r.out is None:
                continue
            rd = cst.read(r.out)
            if rd.error or not R.in_c06_domain(rd):
                obs["edit_outputs"]["out_of_domain"] += 1   # not valid / comments glued: C05's subject
                continue
            obs["edit_outputs"]["judged"] += 1
            nontriv.add(B.h64(before + "\0" + op.kind + op.npath + "\0" + op.value))
            try:
                again = parse(r.out).rebuild()
            except Exception as exc:  # noqa: BLE001
                B.record(res, {"effect": "edit-output-not-readable", "op": op.kind, "cls": op.cls,
                               "exc": type(exc).__name__, "wrappers": E.wrappers_label(dv)},
                         {"text": before, "op": hist[-1], "history": hist[:-1], "initial": text}, str(exc)[:300])
                break
            if again != r.out:
                a, b = r.out.split("\n"), again.split("\n")
                d = next((i for i in range(min(len(a), len(b))) if a[i] != b[i]), min(len(a), len(b)))
                la = a[d] if d < len(a) else "<eof>"
                lb = b[d] if d < len(b) else "<eof>"
                kind = ("indentation" if la.strip() == lb.strip() else
                        "blank-line" if (la.strip() == "" or lb.strip() == "") else
                        "comment-line" if (la.lstrip().startswith("#") or lb.lstrip().startswith("#")) else "line-content")
                k = {"effect": "edit-output-unstable", "op": op.kind, "cls": op.cls, "diff": kind,
                     "wrappers": E.wrappers_label(dv), "layers": str(min(len(dv.layers), 3)),
                     "canonical_input": "yes" if canonical and si == 0 else "no",
                     "multiline_value": "yes" if "\n" in op.value else "no"}
                k.update(B.mixed_keys(dv, op.npath))
                B.record(res, k, {"text": before, "op": hist[-1], "history": hist[:-1], "initial": text},
                         f"EMITTED={r.out!r} REPARSED={again!r}"[:1500])
                break
    res["nontrivial"] = sorted(nontriv)
    return res


def run_shard(spec):
    if spec["kind"] == "edit-outputs":
        return run_edit_outputs(spec)
    return _rtbase.run(spec, judge, passes=3, nontrivial=nontrivial, want_out_read=False,
                       domain=R.in_c06_domain)


def replay(case):
    return _rtbase.replay_case(case, judge, 3)
