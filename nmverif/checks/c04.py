"""C04 - an edit touches only the binding it addresses."""

import random

from nmverif.checks import _editbase as B
from nmverif.checks.c05 import semantic_digest
from nmverif.engines import edit as E
from nmverif.oracle import attrtree as A
from nmverif.oracle import editjudge as J, editmodel as M, locality as L
from nmverif.worker import wal

PROPERTY = "C04"
LEVEL = "exploration"
SHARD_TIMEOUT = 900
FLOORS = {"nontrivial": 2000, "observed": {"judged_token_level": 1500, "judged_byte_level": 300}}
RULE = ("G-doc documents (canonical and non-canonical; all wrapper shapes) x target position "
        "(first / middle / last / only) x neighbourhood (comment above, end-of-line comment, "
        "blank lines, set trailer) x replace / insert / remove on plain, nested, attrpath and "
        "quoted paths, single edits and histories of up to 8; token level on every successful "
        "edit (input and output leaves outside the addressed binding must be equal, comments by "
        "wording), byte level on canonical first-step edits with one-line values; non-trivial = "
        "a successful edit judged at token level; distinct by (text, op) hash")
ASSUMPTIONS = [
    "the addressed binding is located independently in input and output CSTs by its attribute path",
    "on removal the comments attached to the binding (own-line block above, end-of-line comment, set trailer after a last binding) may go with it",
    "byte level only where the expected splice is unambiguous (one-line values, expanded target set, binding owning its lines)",
]


def plan(tier, seed):
    n_shards = 16 if tier == "quick" else 64
    docs = 300 if tier == "quick" else 2500
    return [{"seed": seed * 6007 + i * 15485863 + 11, "docs": docs, "max_hist": 8} for i in range(n_shards)]


def run_shard(spec):
    rng = random.Random(spec["seed"])
    res = B.new_result()
    obs = res["observed"]
    obs.update({"judged_token_level": 0, "judged_byte_level": 0, "positions": {}})
    nontriv = set()
    for di in range(spec["docs"]):
        text, doc, canonical = B.make_document(rng, canonical_only=rng.random() < 0.5)
        wal(f"doc {spec['seed']}:{di}")
        try:
            live = E.LiveDoc(text)
        except Exception:  # noqa: BLE001
            B.bump(obs, "documents_refused_by_parse")
            continue
        hist = []
        for si in range(rng.randrange(1, spec["max_hist"] + 1)):
            dv = A.decode(live.text)
            if dv.error or dv.target is None:
                break
            ops = E.choose_ops(rng, dv, 1, scoped=True, failing=0.05)
            if not ops:
                break
            op = ops[0]
            before = live.text
            r = live.apply(op)
            hist.append((op.kind, op.npath, op.value))
            res["evaluations"] += 1
            B.bump(obs["ops"], op.kind)
            B.bump(obs["op_classes"], op.cls)
            B.bump(obs["outcomes"], "ok" if r.exc_type is None else r.exc_type)
            if r.exc_type is not None:
                continue
            try:
                depth, segs = M.parse_npath(op.npath)
            except M.PathError:
                continue
            vt = J.value_tokens(op.value) if op.kind == "set" else ()
            if vt is None:
                continue
            if depth:
                first = segs[0]
                if not dv.layers and any(b.kind == "bind" and b.path and b.path[0] == first
                                         for b in dv.target.bindings):
                    continue  # test-pinned fallback: @name edits the body when name exists there
                base = {"op": op.kind, "cls": op.cls, "wrappers": E.wrappers_label(dv),
                        "layers": str(min(len(dv.layers), 3)), "step": "first" if si == 0 else "later"}
                base.update(B.mixed_keys(dv, op.npath))
                sem = J.judge_semantics(dv, op, r, base_key=dict(base))
                if sem:
                    B.bump(obs, "skipped_semantic_failure")
                    break
                keys = L.judge_tokens_scoped(dv, op, r, depth, segs, base)
                obs["judged_token_level"] += 1
                B.bump(obs["positions"], base.get("position", "n/a"))
                nontriv.add(B.h64(before + "\0" + op.kind + op.npath + "\0" + op.value))
                for k in keys:
                    k["canonical"] = "yes" if canonical and si == 0 else "no"
                    B.record(res, k, {"text": before, "op": [op.kind, op.npath, op.value],
                                      "history": hist[:-1], "canonical": canonical and si == 0},
                             f"OUT={r.out!r}")
                if keys:
                    break
                continue
            tree_in = A.merge(dv.target.bindings)
            if M.has_dynamic(tree_in):
                continue
            pred = M.predict_set(tree_in, segs, vt) if op.kind == "set" else M.predict_rm(tree_in, segs)
            base = {"op": op.kind, "cls": op.cls, "wrappers": E.wrappers_label(dv),
                    "shape": pred.shape, "step": "first" if si == 0 else "later"}
            base.update(B.mixed_keys(dv, op.npath))
            # only edits whose semantic effect is right are judged for locality (the rest is C05's)
            sem = J.judge_semantics(dv, op, r, base_key=dict(base))
            if sem:
                B.bump(obs, "skipped_semantic_failure")
                # ... except the plainest locality failure: a successful rm that leaves the
                # addressed binding in place and removes another written binding instead
                if op.kind == "rm" and r.out is not None and r.exc_type is None:
                    dvo = A.decode(r.out)
                    if not dvo.error and dvo.target is not None:
                        def written(d):
                            return [tuple(b.path) for b in d.target.bindings if b.kind == "bind" and b.path]
                        win, wout = written(dv), written(dvo)
                        lost = [p_ for p_ in win if p_ not in wout and list(p_) != list(segs)]
                        if tuple(segs) in wout and lost:
                            k = dict(base)
                            k["effect"] = "another-binding-removed"
                            k["lost_written"] = "dotted" if len(lost[0]) > 1 else "plain"
                            B.record(res, k, {"text": before, "op": [op.kind, op.npath, op.value],
                                              "history": hist[:-1], "canonical": canonical and si == 0},
                                     f"lost={lost[:3]!r} OUT={r.out!r}")
                break
            keys = L.judge_tokens(dv, op, r, pred, segs, base)
            obs["judged_token_level"] += 1
            B.bump(obs["positions"], base.get("position", "n/a"))
            nontriv.add(B.h64(before + "\0" + op.kind + op.npath + "\0" + op.value))
            if canonical and si == 0:
                bk = L.judge_bytes(dv, op, r, pred, segs, dict(base))
                obs["judged_byte_level"] += 1
                keys += bk
            for k in keys:
                B.record(res, k, {"text": before, "op": [op.kind, op.npath, op.value],
                                  "history": hist[:-1], "canonical": canonical and si == 0},
                         f"OUT={r.out!r}")
            if keys:
                break
            if len(res["samples"]) < 3 and res["evaluations"] % 199 == 1:
                res["samples"].append({"before": before[:300], "op": [op.kind, op.npath, op.value],
                                       "after": (r.out or "")[:300]})
    res["nontrivial"] = sorted(nontriv)
    return res


def replay(case):
    dv = A.decode(case["text"])
    op = E.Op(case["op"][0], case["op"][1], case["op"][2], "replay")
    r = E.fresh_apply(case["text"], op)
    depth, segs = M.parse_npath(op.npath)
    vt = J.value_tokens(op.value) if op.kind == "set" else ()
    tree_in = A.merge(dv.target.bindings)
    pred = M.predict_set(tree_in, segs, vt) if op.kind == "set" else M.predict_rm(tree_in, segs)
    base = {"op": op.kind, "cls": "replay", "wrappers": E.wrappers_label(dv), "shape": pred.shape}
    keys = L.judge_tokens(dv, op, r, pred, segs, dict(base))
    if case.get("canonical"):
        keys += L.judge_bytes(dv, op, r, pred, segs, dict(base))
    return [{"key": k, "detail": f"OUT={r.out!r}"} for k in keys]
