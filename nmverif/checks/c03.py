"""C03 - comments survive a round trip exactly once, in order and in place."""

from nmverif.checks import _rtbase
from nmverif.oracle import roundtrip as R

PROPERTY = "C03"
LEVEL = "exploration"
SHARD_TIMEOUT = 900
FLOORS = {"nontrivial": 3000, "observed": {"cells_distinct": 30}}
RULE = ("G-grid restricted to comment trivia classes (every comment kind x placement x gap x "
        "construct x context, enumerated completely) + seeded G-nix 'hostile'/'comments-only' "
        "programs with uniquely numbered comments; non-trivial = structural path and at least "
        "one comment in the input; distinct by content hash")
ASSUMPTIONS = [
    "comment identity by unique serial; wording compared after stripping delimiters, per-line indentation and padding only",
    "a comment may cross delimiters (; , ( ) { } [ ] : = @ ${ quotes) but not identifiers, literals, keywords, operators",
    "token-level loss is C01's subject; C03 judges only inputs whose output parses",
]

COMMENT_CLASSES = ["eol_c", "own_c", "blank_own_c", "nosp_c", "two_c", "uni_c", "shebang_c",
                   "own_c_ind", "inl_blk", "own_blk", "ml_blk", "doc", "inl_blk_tight", "eol_blk",
                   "lead_blk", "eol_c_blank", "own_c_blank", "eol_c_crlf", "eol_c_crlf_blank", "blk_edge",
                   "ctl_c", "ctl_blk", "two_blk", "blk_eol_c", "own_blk_eol_c", "three_blk", "two_blk_eol_c"]


def judge(ob, rin, rout):
    if ob.out is None or rout is None or rout.error:
        return []
    ws = R.judge_comments(rin, rout)
    # absorbed code: a token of the input that vanished while an output comment holds its text
    tok = R.judge_tokens(ob, rin, rout)
    ws += [k for k in tok if k.get("effect") == "code-absorbed-by-comment"]
    return ws


def nontrivial(rin, ob):
    return ob.out is not None and not ob.passthrough and len(rin.comments) > 0


def plan(tier, seed):
    return _rtbase.standard_plan(tier, seed, modes=["hostile", "comments-only", "line-comments"],
                                 n_random_quick=20000, n_random_thorough=600000,
                                 grid_classes=COMMENT_CLASSES, adj=False)


def run_shard(spec):
    if spec["kind"] == "random":
        spec = dict(spec)
        spec.setdefault("densities", [0.1, 0.25, 0.5])
    return _rtbase.run(spec, judge, passes=1, nontrivial=nontrivial)


def finalize(merged, tier):
    merged["extra_coverage"] = {"exhaustive_grid": True}


def replay(case):
    return _rtbase.replay_case(case, judge, 1)
