"""C12 - attribute names in paths are written and matched faithfully."""

import itertools
import random
import re

from nmverif.checks import _editbase as B
from nmverif.engines import edit as E
from nmverif.oracle import attrtree as A
from nmverif.oracle import cst
from nmverif.oracle import editmodel as M
from nmverif.worker import wal

PROPERTY = "C12"
LEVEL = "exploration"
SHARD_TIMEOUT = 900
FLOORS = {"nontrivial": 1500, "observed": {"singles": 100, "pairs": 400, "malformed": 300}}
RULE = ("alphabet enumeration: every single character of a 150-character alphabet (ASCII "
        "printable, \\n \\r \\t and other controls, accented, arrow, emoji, ${), every ordered pair "
        "from a 26-character hazard alphabet, all Nix keywords, seeded random strings up to 12 "
        "characters, 1-4 segments, each as: set -> name read back by an independent Nix string "
        "decoder -> set again (no second definition) -> rm (gone); spelling-equivalence pairs "
        "(bare in file / quoted in path and vice versa); 60 malformed path templates x fillers "
        "must be refused; non-trivial = a name that needs quoting or a multi-segment path; "
        "distinct by name tuple")
ASSUMPTIONS = [
    "canonical segment spelling as stated by C12: bare for [A-Za-z_][A-Za-z0-9_']*, otherwise quoted with \\\" and \\\\ escapes",
    "the decoder (oracle/nixstr.py) implements Nix double-quoted string semantics: \\n \\r \\t, \\x -> x, ${ live unless escaped",
]

KEYWORDS = ["if", "then", "else", "let", "in", "with", "assert", "rec", "inherit", "or", "true",
            "false", "null", "import"]
HAZARD = list("a1_'-.\"\\$ {}\n\t@=;#/") + ["é", "${", "''", "\r", "→", "*"]
SINGLES = [chr(c) for c in range(32, 127)] + ["\n", "\r", "\t", "\x01", "\x1b", "\x7f", "é", "ü",
                                              "→", "✓", "😀", "${", " ", " ", "ß", "Ω",
                                              "中", "﻿"]

MALFORMED_TEMPLATES = ["", ".", "..", "{a}..{b}", ".{a}", "{a}.", '{a}"{b}"', '"{a}', '{a}."{b}',
                       '"{a}\\', "{a}-{b}", "1{a}", "{a} {b}", "'{a}", "{a}.$", "@", "@@", "@.",
                       '"{a}"{b}', '{a}."{b}"{a}', "{a},{b}", "{a};", "{a}=", "{a}/{b}", "{a}.{b}.",
                       "{a}..", "@{a}..{b}", "@@{a}.", '@"{a}', "{a}\n", "\t{a}", " {a}", "{a} ",
                       "{a}.é", "{a}.{b}-", "{a}.${{b}}", "${{a}}", "{a}+", "({a})", "[{a}]",
                       "{a}.[{b}]", "{a}:{b}", "{a}?", "{a}!", "~{a}", "{a}*", "{a}|{b}", "<{a}>",
                       "{a}.<{b}>", "{a}\\.{b}", "{a}.\\", "#{a}", "{a}#", "{a}.'", "-{a}", "{a}.-",
                       '{a}."{b}".', '"{a}"."{b}', "{a}.\"{b}\"x.{a}", "@@@",
                       '"""{a}"', '{a}."""{b}"', '""""', '"{a}""{b}"', '"{a}"""', '@"""{a}"', '""."""{a}"']
FILLERS = [("a", "b"), ("foo", "bar"), ("x1", "y_2")]


def charclass(name: str) -> str:
    if name == "":
        return "empty"
    if name in KEYWORDS:
        return "keyword"
    if M.BARE_RE.match(name):
        return "plain"
    cls = []
    if "${" in name:
        cls.append("dollar-brace")
    if '"' in name:
        cls.append("quote")
    if "\\" in name:
        cls.append("backslash")
    if "." in name:
        cls.append("dot")
    if "-" in name:
        cls.append("hyphen")
    if any(ord(c) < 32 or ord(c) == 127 for c in name):
        cls.append("control")
    if any(ord(c) > 127 for c in name):
        cls.append("non-ascii")
    if name[0].isdigit() or name[0] == "'":
        cls.append("bad-first")
    if " " in name:
        cls.append("space")
    return "+".join(cls[:3]) if cls else "other-punct"


def decoded_names(text):
    dv = A.decode(text)
    if dv.error or dv.target is None:
        return None, dv
    return dv, dv


def lifecycle(names: tuple, res, obs, base_doc="{ }\n", context="empty"):
    """set -> read back -> set again -> rm for one (multi-segment) name tuple."""
    path = ".".join(M.quote_segment(n) for n in names)
    cc = "|".join(charclass(n) for n in names)
    key0 = {"class": cc, "segments": str(len(names)), "context": context}
    case = {"names": list(names), "path": path, "doc": base_doc}

    def fail(effect, detail, **extra):
        k = dict(key0)
        k["effect"] = effect
        k.update(extra)
        B.record(res, k, case, detail)

    r1 = E.fresh_apply(base_doc, E.Op("set", path, "1"))
    if r1.exc_type is not None:
        fail("wellformed-path-refused", f"{r1.exc_type}: {r1.exc_msg}", exc=r1.exc_type, stage="set")
        return
    dv = A.decode(r1.out)
    if dv.error:
        fail("output-syntax-error", repr(r1.out), stage="set")
        return
    if dv.target is None:
        fail("target-lost", repr(r1.out), stage="set")
        return
    dups = []
    tree = A.merge(dv.target.bindings, dups)
    node = A.lookup(tree, [n for n in names])
    if any(k.startswith("\x00dyn:") for k in _all_keys(tree)):
        fail("live-interpolation-written", repr(r1.out), stage="set")
        return
    if node is None or node.kind != "leaf" or node.tokens != (("integer_expression", b"1"),):
        fail("name-not-read-back", repr(r1.out) + f" keys={list(_all_keys(tree))!r}", stage="set")
        return
    if dups:
        fail("duplicate-definition", repr(r1.out), stage="set")
        return
    # second set with the same path must hit the same binding
    r2 = E.fresh_apply(r1.out, E.Op("set", path, "2"))
    if r2.exc_type is not None:
        fail("second-set-refused", f"{r2.exc_type}: {r2.exc_msg}", exc=r2.exc_type, stage="set2")
        return
    dv2 = A.decode(r2.out)
    dups2 = []
    if dv2.error or dv2.target is None:
        fail("output-syntax-error", repr(r2.out), stage="set2")
        return
    tree2 = A.merge(dv2.target.bindings, dups2)
    node2 = A.lookup(tree2, list(names))
    if dups2 or _count_leaves(tree2) != _count_leaves(tree):
        fail("duplicate-definition", repr(r2.out), stage="set2")
        return
    if node2 is None or node2.tokens != (("integer_expression", b"2"),):
        fail("second-set-missed-binding", repr(r2.out), stage="set2")
        return
    r3 = E.fresh_apply(r2.out, E.Op("rm", path, ""))
    if r3.exc_type is not None:
        fail("rm-did-not-find-binding", f"{r3.exc_type}: {r3.exc_msg}", exc=r3.exc_type, stage="rm")
        return
    dv3 = A.decode(r3.out)
    if dv3.error or dv3.target is None:
        fail("output-syntax-error", repr(r3.out), stage="rm")
        return
    tree3 = A.merge(dv3.target.bindings)
    if A.lookup(tree3, list(names)) is not None:
        fail("rm-left-binding", repr(r3.out), stage="rm")


def _all_keys(tree):
    for k, v in tree.children.items():
        yield k
        if v.kind == "set":
            yield from _all_keys(v)


def _count_leaves(tree):
    n = 0
    for v in tree.children.values():
        n += 1 if v.kind == "leaf" else _count_leaves(v)
    return n


def equivalence(name: str, res, obs):
    """Spellings Nix reads as the same name denote one attribute."""
    bare_ok = bool(__import__("re").match(r"^[A-Za-z_][A-Za-z0-9_'-]*$", name)) and name not in KEYWORDS
    quoted_path = '"' + name.replace("\\", "\\\\").replace('"', '\\"') + '"'
    file_spellings = []
    if bare_ok:
        file_spellings.append(("bare-in-file", f"{{ {name} = 1; }}\n"))
    file_spellings.append(("quoted-in-file", "{ " + '"' + name.replace("\\", "\\\\").replace('"', '\\"').replace("${", "\\${") + '"' + " = 1; }\n"))
    path_spellings = [("quoted-path", quoted_path)]
    if M.BARE_RE.match(name):
        path_spellings.append(("bare-path", name))
    for fs, doc in file_spellings:
        for ps, path in path_spellings:
            for opk in ("set", "rm"):
                r = E.fresh_apply(doc, E.Op(opk, path, "2"))
                key0 = {"class": charclass(name), "file": fs, "path": ps, "op": opk, "context": "equivalence",
                        "spellings": "same" if fs.split("-")[0] == ps.split("-")[0] else "different"}
                case = {"names": [name], "path": path, "doc": doc, "op": opk}
                obs["equivalence_runs"] = obs.get("equivalence_runs", 0) + 1
                if r.exc_type is not None:
                    k = dict(key0)
                    k.update({"effect": "equivalent-spelling-not-found", "exc": r.exc_type})
                    B.record(res, k, case, f"{r.exc_type}: {r.exc_msg}")
                    continue
                dv = A.decode(r.out)
                if dv.error or dv.target is None:
                    k = dict(key0)
                    k["effect"] = "output-syntax-error"
                    B.record(res, k, case, repr(r.out))
                    continue
                dups = []
                tree = A.merge(dv.target.bindings, dups)
                n_leaves = _count_leaves(tree)
                if opk == "set" and (dups or n_leaves != 1):
                    k = dict(key0)
                    k["effect"] = "second-definition-created"
                    B.record(res, k, case, repr(r.out))
                elif opk == "rm" and n_leaves != 0:
                    k = dict(key0)
                    k["effect"] = "rm-left-binding"
                    B.record(res, k, case, repr(r.out))


def _prime_as_value(names, obs):
    try:
        from nix_manipulator import parse as _parse
        doc = _parse("{ a = 1; }")
        top = doc.expressions[0]
        for i, n in enumerate(names):
            top[f"v{i}"] = n
        doc.rebuild()
        obs["primed_value_renders"] = obs.get("primed_value_renders", 0) + len(names)
    except Exception:
        obs["primed_value_refused"] = obs.get("primed_value_refused", 0) + 1


def plan(tier, seed):
    shards = [{"kind": "singles"}, {"kind": "keywords"}, {"kind": "singles", "prime": True}]
    for p in range(6):
        shards.append({"kind": "pairs", "part": p, "parts": 6})
    for p in range(3):
        shards.append({"kind": "pairs", "part": p, "parts": 3, "prime": True})
    shards.append({"kind": "malformed"})
    shards.append({"kind": "equivalence"})
    shards.append({"kind": "inherited"})
    n_rand = 16 if tier == "quick" else 64
    for i in range(n_rand):
        shards.append({"kind": "random", "seed": seed * 7727 + i * 611953 + 1,
                       "n": 1500 if tier == "quick" else 8000})
    return shards


def run_shard(spec):
    res = B.new_result()
    obs = res["observed"]
    obs.update({"singles": 0, "pairs": 0, "malformed": 0, "classes": {}})
    nontriv = set()

    def do(names, **kw):
        wal("names " + repr(names))
        if spec.get("prime"):
            # history: the very text was rendered as a string VALUE earlier in this process
            # (programmatic API), then it is used as an attribute NAME
            _prime_as_value(names, obs)
        lifecycle(tuple(names), res, obs, **kw)
        res["evaluations"] += 1
        for n in names:
            B.bump(obs["classes"], charclass(n))
        if len(names) > 1 or not M.BARE_RE.match(names[0]):
            nontriv.add(B.h64("\0".join(names)))

    kind = spec["kind"]
    if kind == "singles":
        for ch in SINGLES:
            do([ch])
            do(["x" + ch + "y"])
            obs["singles"] += 1
        do([""])
        # runs of `$` before `{`: only an odd run makes the brace an interpolation
        for n_dollars in range(1, 8):
            do(["$" * n_dollars + "{x}"])
            do(["a" + "$" * n_dollars + "{x}b"])
            do(["p", "$" * n_dollars + "{q}"])
    elif kind == "keywords":
        for kw in KEYWORDS:
            do([kw])
            do(["a", kw])
            do([kw, "b"], base_doc="{\n  z = 0;\n}\n", context="with-sibling")
    elif kind == "pairs":
        for n, (a, b) in enumerate(itertools.product(HAZARD, HAZARD)):
            if n % spec["parts"] != spec["part"]:
                continue
            do([a + b])
            if n % 7 == 0:
                do(["p", a + b, "q"])
            obs["pairs"] += 1
    elif kind == "malformed":
        for tpl in MALFORMED_TEMPLATES:
            for a, b in FILLERS:
                path = tpl.replace("{a}", a).replace("{b}", b).replace("{{", "{").replace("}}", "}")
                try:
                    M.parse_npath(path)
                    model_ok = True
                except M.PathError:
                    model_ok = False
                if model_ok:
                    obs["malformed_templates_wellformed_for_model"] = obs.get(
                        "malformed_templates_wellformed_for_model", 0) + 1
                    continue
                for opk in ("set", "rm"):
                    wal("malformed " + repr(path))
                    r = E.fresh_apply("{\n  a = { b = 1; };\n  foo = 2;\n}\n", E.Op(opk, path, "9"))
                    res["evaluations"] += 1
                    obs["malformed"] += 1
                    nontriv.add(B.h64("mal\0" + path + opk))
                    if r.exc_type is None:
                        B.record(res, {"effect": "malformed-path-accepted", "template": tpl, "op": opk},
                                 {"path": path, "op": opk}, repr(r.out))
                    elif not E.is_documented(r):
                        B.record(res, {"effect": "undocumented-exception", "exc": r.exc_type,
                                       "template": tpl}, {"path": path, "op": opk}, r.exc_msg)
    elif kind == "equivalence":
        for name in ["a", "foo-bar", "x'", "_p", "a1", "with-dash-", "foo-bar-baz", "q_r", "B"]:
            equivalence(name, res, obs)
            res["evaluations"] += 1
            nontriv.add(B.h64("eq\0" + name))
    elif kind == "inherited":
        # a name that an `inherit` clause defines, addressed in every spelling: the edit is refused
        # or replaces the definition - never a second definition next to the clause
        for name in ["a", "foo-bar", "a b", "x'", "1x", "q_r", "\u00e9", "a.b", "with"]:
            clause_name = name if M.BARE_RE.match(name) and name not in KEYWORDS else '"' + name + '"'
            for src_part in ("", "(src) "):
                for ctx, doc in (("body", "{\n  inherit %s%s;\n  keep = 1;\n}\n"),
                                 ("nested", "{\n  m = {\n    inherit %s%s;\n  };\n}\n"),
                                 ("let", "let\n  inherit %s%s;\nin\n{\n  keep = 1;\n}\n")):
                    text = doc % (src_part, clause_name)
                    if cst.has_error(text):
                        continue
                    spellings = {'"' + name.replace('"', '\\"') + '"'}
                    if M.BARE_RE.match(name):
                        spellings.add(name)
                    for sp in sorted(spellings):
                        path = {"body": sp, "nested": "m." + sp, "let": "@" + sp}[ctx]
                        wal("inherited " + repr(path))
                        r = E.fresh_apply(text, E.Op("set", path, "2"))
                        res["evaluations"] += 1
                        obs["inherited"] = obs.get("inherited", 0) + 1
                        nontriv.add(B.h64("inh\0" + text + path))
                        key0 = {"class": charclass(name), "context": "inherited:" + ctx, "op": "set",
                                "spelling": "quoted" if sp.startswith('"') else "bare",
                                "from": "source" if src_part else "scope"}
                        if r.exc_type is not None:
                            if not E.is_documented(r):
                                B.record(res, {**key0, "effect": "undocumented-exception", "exc": r.exc_type},
                                         {"doc": text, "path": path}, r.exc_msg)
                            continue
                        n_inherit = r.out.count("inherit")
                        defs = len(re.findall(r"(?m)^\s*" + re.escape(clause_name) + r"\s*=", r.out))
                        if n_inherit and defs:
                            B.record(res, {**key0, "effect": "duplicate-definition"},
                                     {"doc": text, "path": path}, repr(r.out))
    elif kind == "random":
        rng = random.Random(spec["seed"])
        alphabet = SINGLES + HAZARD + list("abcxyz019")
        for _ in range(spec["n"]):
            nseg = rng.choice([1, 1, 2, 3, 4])
            names = ["".join(rng.choice(alphabet) for _ in range(rng.randrange(1, 13))) for _ in range(nseg)]
            ctx = rng.random()
            if ctx < 0.6:
                do(names)
            elif ctx < 0.8:
                do(names, base_doc="{ pkgs }:\n{\n  keep = 1;\n}\n", context="lambda")
            else:
                do(names, base_doc="let\n  l = 1;\nin\n{\n  keep.me = 1;\n}\n", context="let")
    res["nontrivial"] = sorted(nontriv)
    if res["witnesses"]:
        res["samples"] = [w["case"] for w in res["witnesses"][:2]]
    else:
        res["samples"] = [{"kind": kind, "evaluations": res["evaluations"]}]
    return res


def replay(case):
    res = B.new_result()
    if "names" in case and case.get("doc") and "op" not in case:
        lifecycle(tuple(case["names"]), res, res["observed"], base_doc=case["doc"])
    elif "names" in case:
        equivalence(case["names"][0], res, res["observed"])
    else:
        r = E.fresh_apply("{\n  a = { b = 1; };\n  foo = 2;\n}\n", E.Op(case["op"], case["path"], "9"))
        if r.exc_type is None:
            res["witnesses"].append({"key": {"effect": "malformed-path-accepted"}, "detail": repr(r.out)})
    return [{"key": w["key"], "detail": w["detail"]} for w in res["witnesses"]]
