"""C19 - edits compose predictably: repeatable, reversible, order-independent."""

import random
import re

from nmverif.checks import _editbase as B
from nmverif.engines import edit as E
from nmverif.oracle import attrtree as A
from nmverif.oracle import editmodel as M
from nmverif.worker import wal

PROPERTY = "C19"
LEVEL = "exploration"
SHARD_TIMEOUT = 900
FLOORS = {"nontrivial": 2000, "observed": {"laws.idempotence": 500, "laws.restore": 500,
                                           "laws.rm-set-tree": 300, "laws.commute": 300}}
RULE = ("canonical G-doc documents (all wrapper shapes, 0-2 let layers) x paths and values drawn "
        "from the decoded attribute tree; four laws, each executed as alternative histories on "
        "separate parses of the same text, optionally after a random prefix history of 0-6 edits: "
        "idempotence (set p v; set p v == set p v), restore (fresh single-segment or scoped p: set "
        "p v; rm p == original text, canonical prefix-free documents only), rm-set (rm p; set p "
        "old gives the same attribute tree, for plain, nested and dotted paths), commutation (two "
        "sets, and two removals, on different existing paths, either order, same text); non-trivial = a law instance whose operations all succeeded; "
        "distinct by (text, law, ops) hash")
ASSUMPTIONS = [
    "alternative histories are compared with each other; no external oracle",
    "a law instance in which an operation is refused is not judged (refusals are C05/C08's subject)",
]


def run_seq(text, ops, reparse=False):
    """Apply the operations on one live document, or - like successive nima invocations - each on
    a fresh parse of the previous output."""
    live = E.LiveDoc(text)
    out = text
    for op in ops:
        if reparse and out != text:
            try:
                live = E.LiveDoc(out)
            except Exception as exc:  # noqa: BLE001
                r = E.OpResult(op, out)
                r.exc_type, r.exc_msg = type(exc).__name__, "parse: " + str(exc)[:160]
                return None, r
        r = live.apply(op)
        if r.exc_type is not None:
            return None, r
        out = r.out
    return out, None


def _sorted_plain(x):
    if isinstance(x, dict):
        return tuple(sorted((k, _sorted_plain(v)) for k, v in x.items()))
    return x


def tree_of(text):
    """Order-insensitive attribute trees of the target set and of its let layers."""
    dv = A.decode(text)
    if dv.error or dv.target is None:
        return None
    return (_sorted_plain(A.to_plain(A.merge(dv.target.bindings))),
            tuple(_sorted_plain(A.to_plain(A.merge(l))) for l in dv.layers))


ODD_NAMES = ["na\u00efve", "gr\u00f6\u00dfe", "\u00e9", "a\u0301", "x'", "_", "a-b", "a--", "or", "\u03bb", "n\u00ba1"]


def value_comment(val: str) -> str:
    if val.lstrip().startswith(("#", "/*")):
        return "leading"
    return "trailing" if ("# vc" in val or "/* vc" in val) else "none"


def set_view_at(sv, path):
    for seg in path:
        nxt = None
        for b in sv.bindings:
            if b.kind == "bind" and b.path == (seg,) and b.sub is not None:
                nxt = b.sub
                break
        if nxt is None:
            return None
        sv = nxt
    return sv


def comment_only(text, sv) -> str:
    """Does the set the binding goes into hold no binding but a comment?"""
    if sv is None or sv.bindings:
        return "no"
    body = text.encode("utf-8")[sv.node.start_byte:sv.node.end_byte]
    return "yes" if (b"#" in body or b"/*" in body) else "no"


def plan(tier, seed):
    n_shards = 16 if tier == "quick" else 64
    docs = 220 if tier == "quick" else 2000
    return [{"seed": seed * 9001 + i * 86028121 + 13, "docs": docs} for i in range(n_shards)]


def run_shard(spec):
    rng = random.Random(spec["seed"])
    res = B.new_result()
    obs = res["observed"]
    obs["laws"] = {}
    obs["refused_instances"] = 0
    nontriv = set()

    def witness(law, key, case, detail):
        k = {"law": law}
        k.update(key)
        try:
            dvw = A.decode(case["text"])
            mk = {"mixed_on_path": "no", "doc_mixed": "no"}
            for o in case.get("ops", []):
                m2 = B.mixed_keys(dvw, o[1])
                for kk, vv in m2.items():
                    if vv == "yes":
                        mk[kk] = "yes"
            k.update(mk)
        except Exception:  # noqa: BLE001
            pass
        B.record(res, k, case, detail)

    for di in range(spec["docs"]):
        text0, doc, canonical = B.make_document(rng, canonical_only=True)
        if rng.random() < 0.02:
            # a document whose set holds nothing but a comment
            text0 = rng.choice(["{\n  # todo\n}\n", "{ pkgs }:\n{\n  # nothing yet\n}\n",
                                "let\n  v = 1;\nin\n{\n  /* empty */\n}\n"])
        wal(f"doc {spec['seed']}:{di}")
        # optional prefix history
        text = text0
        prefix = []
        if rng.random() < 0.5:
            try:
                live = E.LiveDoc(text0)
            except Exception:  # noqa: BLE001
                continue
            for _ in range(rng.randrange(1, 7)):
                dvp = A.decode(live.text)
                if dvp.error or dvp.target is None:
                    break
                ops = E.choose_ops(rng, dvp, 1, failing=0.0)
                if not ops:
                    break
                r = live.apply(ops[0])
                if r.exc_type is None:
                    prefix.append([ops[0].kind, ops[0].npath, ops[0].value])
            text = live.text
        dv = A.decode(text)
        if dv.error or dv.target is None:
            continue
        tree = A.merge(dv.target.bindings)
        if M.has_dynamic(tree):
            continue
        paths = list(E.all_paths(tree))
        leaves = [p for p, nd in paths if nd.kind == "leaf" and not (nd.tokens and nd.tokens[0][0] == "inherit")]
        wl = E.wrappers_label(dv)
        base_case = {"text": text, "prefix": prefix, "initial": text0}
        pool = E.VALUE_POOL + E.MULTILINE_VALUES
        val = rng.choice(pool)
        if rng.random() < 0.08:
            val = rng.choice(E.COMMENTED_VALUES)
        val2 = rng.choice([v for v in pool if v != val])
        try:
            # ---- idempotence
            cands = leaves + [("fresh" + str(rng.randrange(99)),)]
            p = rng.choice(cands)
            scoped = rng.random() < 0.2
            sp = ("@" if scoped else "") + (E.spell(p) if not scoped else "s_idem" + str(rng.randrange(9)))
            if rng.random() < 0.06:
                # names at the edge of what a bare segment may be (refused or not: twice like once)
                sp = ("@" if scoped else "") + rng.choice(ODD_NAMES)
            rp = rng.random() < 0.5   # same object, or a fresh parse between the two applications
            once, r1 = run_seq(text, [E.Op("set", sp, val)])
            twice, r2 = run_seq(text, [E.Op("set", sp, val), E.Op("set", sp, val)], reparse=rp)
            if once is not None and twice is None and not rp:
                witness("idempotence", {"effect": "second-application-refused", "wrappers": wl,
                                        "scoped": str(scoped), "fresh": str(p not in leaves), "exc": r2.exc_type},
                        {**base_case, "ops": [["set", sp, val]] * 2}, f"{r2.exc_type}: {r2.exc_msg}")
            if once is not None and twice is None and rp:
                witness("idempotence", {"effect": "second-application-refused-after-reparse", "wrappers": wl,
                                        "scoped": str(scoped), "fresh": str(p not in leaves), "exc": r2.exc_type},
                        {**base_case, "ops": [["set", sp, val]] * 2}, f"{r2.exc_type}: {r2.exc_msg}")
            res["evaluations"] += 1
            if once is None or twice is None:
                obs["refused_instances"] += 1
            else:
                B.bump(obs["laws"], "idempotence")
                nontriv.add(B.h64(text + "\0idem\0" + sp + val))
                if once != twice:
                    witness("idempotence", {"effect": "second-application-changed-text", "wrappers": wl,
                                            "scoped": str(scoped), "fresh": str(p not in leaves),
                                            "reparse": str(rp), "value_comment": value_comment(val)},
                            {**base_case, "ops": [["set", sp, val]] * 2}, f"ONCE={once!r} TWICE={twice!r}")
            # ---- restore (canonical, prefix-free)
            if not prefix:
                scoped = rng.random() < 0.4
                name = "zz" + str(rng.randrange(1000))
                sp = ("@" if scoped else "") + name
                if scoped and not dv.layers and any(b.kind == "bind" and b.path[0] == name for b in dv.target.bindings):
                    pass
                else:
                    back, r = run_seq(text, [E.Op("set", sp, val), E.Op("rm", sp, "")])
                    res["evaluations"] += 1
                    if back is None:
                        obs["refused_instances"] += 1
                    else:
                        B.bump(obs["laws"], "restore")
                        nontriv.add(B.h64(text + "\0restore\0" + sp + val))
                        if back != text:
                            inline_target = "\n" not in text[dv.target.node.start_byte:dv.target.node.end_byte]
                            witness("restore", {"effect": "set-then-rm-did-not-restore-text", "wrappers": wl,
                                                "scoped": str(scoped), "layers": str(min(len(dv.layers), 3)),
                                                "inline_target": str(inline_target),
                                                "parent_comment_only": comment_only(text, dv.target),
                                                "tree_restored": str(tree_of(back) == tree_of(text)),
                                                "diff_kind": ("final-newline-only" if back + "\n" == text
                                                              else "other")},
                                    {**base_case, "ops": [["set", sp, val], ["rm", sp, ""]]},
                                    f"BACK={back!r}")
            # ---- restore inside a nested explicit set (also one written on one line)
            nested_sets = [p for p, nd in paths if nd.kind == "set" and nd.explicit and not nd.via_attrpath and len(p) <= 2]
            if not prefix and nested_sets:
                base_p = rng.choice(nested_sets)
                sp = E.spell(base_p + ("zz" + str(rng.randrange(1000)),))
                back, r = run_seq(text, [E.Op("set", sp, val), E.Op("rm", sp, "")])
                res["evaluations"] += 1
                if back is None:
                    obs["refused_instances"] += 1
                else:
                    B.bump(obs["laws"], "restore-nested")
                    nontriv.add(B.h64(text + "\0restore-nested\0" + sp + val))
                    if back != text:
                        witness("restore", {"effect": "set-then-rm-did-not-restore-text", "wrappers": wl,
                                            "scoped": "False", "layers": str(min(len(dv.layers), 3)),
                                            "nested": "yes", "multiline_value": "yes" if "\n" in val else "no",
                                            "parent_comment_only": comment_only(text, set_view_at(dv.target, base_p)),
                                            "tree_restored": str(tree_of(back) == tree_of(text)),
                                            "diff_kind": ("final-newline-only" if back + "\n" == text else "other")},
                                {**base_case, "ops": [["set", sp, val], ["rm", sp, ""]]}, f"BACK={back!r}")
            # ---- rm then set old value: same tree
            simple_leaves = [p for p in leaves if len(p) == 1]
            if simple_leaves or leaves:
                # any written leaf: plain, nested or dotted (`a.b.c = v;`)
                p = rng.choice(simple_leaves) if (simple_leaves and rng.random() < 0.4) else rng.choice(leaves)
                node = A.lookup(tree, list(p))
                loc = None
                from nmverif.oracle import editjudge as J
                loc = J.find_written(dv.target.bindings, list(p))
                if loc is not None and loc[0][loc[1]].value_node is not None:
                    old = loc[0][loc[1]].value_node.text.decode("utf-8", "replace")
                    sp = E.spell(p)
                    again, r = run_seq(text, [E.Op("rm", sp, ""), E.Op("set", sp, old)], reparse=rng.random() < 0.5)
                    res["evaluations"] += 1
                    if again is None:
                        obs["refused_instances"] += 1
                    else:
                        B.bump(obs["laws"], "rm-set-tree")
                        nontriv.add(B.h64(text + "\0rmset\0" + sp))
                        if tree_of(again) != tree_of(text):
                            witness("rm-set-tree", {"effect": "tree-differs", "wrappers": wl,
                                                    "path_len": str(min(len(p), 3))},
                                    {**base_case, "ops": [["rm", sp, ""], ["set", sp, old]]},
                                    f"AGAIN={again!r}")
            # ---- two removals commute (same text either order)
            if len(leaves) >= 2:
                p1, p2 = rng.sample(leaves, 2)
                if p1[: len(p2)] != p2 and p2[: len(p1)] != p1:
                    a = E.Op("rm", E.spell(p1), "")
                    b = E.Op("rm", E.spell(p2), "")
                    ab, r = run_seq(text, [a, b])
                    ba, r_ = run_seq(text, [b, a])
                    res["evaluations"] += 1
                    if ab is None or ba is None:
                        obs["refused_instances"] += 1
                    else:
                        B.bump(obs["laws"], "rm-commute")
                        nontriv.add(B.h64(text + "\0rmcomm\0" + a.npath + b.npath))
                        if ab != ba:
                            witness("rm-commute", {"effect": "order-dependent-text", "wrappers": wl,
                                                   "tree_equal": str(tree_of(ab) == tree_of(ba))},
                                    {**base_case, "ops": [["rm", a.npath, ""], ["rm", b.npath, ""]]},
                                    f"AB={ab!r} BA={ba!r}")
            # ---- commutation
            if len(leaves) >= 2:
                p1, p2 = rng.sample(leaves, 2)
                if p1[: len(p2)] != p2 and p2[: len(p1)] != p1:
                    a = E.Op("set", E.spell(p1), val)
                    b = E.Op("set", E.spell(p2), val2)
                    ab, r = run_seq(text, [a, b])
                    ba, r_ = run_seq(text, [b, a])
                    res["evaluations"] += 1
                    if ab is None or ba is None:
                        obs["refused_instances"] += 1
                    else:
                        B.bump(obs["laws"], "commute")
                        nontriv.add(B.h64(text + "\0comm\0" + a.npath + b.npath))
                        if ab != ba:
                            witness("commute", {"effect": "order-dependent-text", "wrappers": wl,
                                                "tree_equal": str(tree_of(ab) == tree_of(ba))},
                                    {**base_case, "ops": [["set", a.npath, val], ["set", b.npath, val2]]},
                                    f"AB={ab!r} BA={ba!r}")
        except Exception as exc:  # noqa: BLE001 - parse refusal of an intermediate text
            B.bump(obs, "instances_aborted_by_parse_error")
        if len(res["samples"]) < 2 and di % 97 == 3:
            res["samples"].append({"text": text[:300], "prefix": prefix})
    # ---- idempotence through references: the written binding is not the one at the path; values
    # that carry comments of their own (leading / trailing) must not pile up on repetition
    for ri in range(max(20, spec["docs"] // 8)):
        tpl_name, text, path = rng.choice(REFERENCE_DOCS)
        kv = rng.random()
        val = rng.choice(E.VALUE_POOL if kv < 0.4 else (E.MULTILINE_VALUES if kv < 0.5 else E.COMMENTED_VALUES))
        wal(f"reference {spec['seed']}:{ri}")
        n_rep = rng.choice([2, 3])
        rp = rng.random() < 0.5
        once, r1 = run_seq(text, [E.Op("set", path, val)])
        many, r2 = run_seq(text, [E.Op("set", path, val)] * n_rep, reparse=rp)
        res["evaluations"] += 1
        case = {"text": text, "prefix": [], "initial": text, "ops": [["set", path, val]] * n_rep, "reparse": rp}
        key = {"wrappers": tpl_name, "through_reference": "yes", "reparse": str(rp),
               "value_is_name": "yes" if (re.fullmatch(r"[A-Za-z_][A-Za-z0-9_'-]*", val)
                                          and val not in ("true", "false", "null")) else "no",
               "value_comment": value_comment(val)}
        if once is None:
            obs["refused_instances"] += 1
            continue
        B.bump(obs["laws"], "idempotence-through-reference")
        nontriv.add(B.h64(text + "\0ref\0" + path + val + str(rp)))
        if many is None:
            witness("idempotence", {**key, "effect": "second-application-refused", "exc": r2.exc_type}, case,
                    f"{r2.exc_type}: {r2.exc_msg}")
        elif many != once:
            witness("idempotence", {**key, "effect": "second-application-changed-text"}, case,
                    f"ONCE={once!r} MANY={many!r}")
    res["nontrivial"] = sorted(nontriv)
    return res


# (label, document, path whose value is a reference): scope chain, fallback through a call / a
# function head, sibling in a plain and in a rec set, chain of two references
REFERENCE_DOCS = [
    ("let", "let\n  v = \"1\";\nin\n{\n  version = v;\n}\n", "version"),
    ("let+call", "let\n  v = \"1\";\nin\nf {\n  version = v;\n}\n", "version"),
    ("let+lambda", "let\n  v = 1;\nin\n{ pkgs }:\n{\n  x = v;\n}\n", "x"),
    ("lambda+let", "{ pkgs }:\nlet\n  v = 1; # note\nin\n{\n  x = v;\n}\n", "x"),
    ("sibling", "{\n  a = b;\n  b = 1;\n}\n", "a"),
    ("rec-sibling", "rec {\n  a = b;\n  b = /* pin */ 1;\n}\n", "a"),
    ("chain", "let\n  v = w;\n  w = 1;\nin\n{\n  x = v;\n}\n", "x"),
    ("nested", "let\n  v = 1;\nin\n{\n  m = {\n    x = v;\n  };\n}\n", "m.x"),
    ("dotted", "let\n  v = 1;\nin\n{\n  m.x = v;\n  m.y = 2;\n}\n", "m.x"),
]


def replay(case):
    ops = [E.Op(k, p, v) for k, p, v in case["ops"]]
    out = []
    text = case["text"]
    if len(ops) == 2 and ops[0].npath == ops[1].npath and ops[0].kind == ops[1].kind == "set":
        once, _ = run_seq(text, ops[:1])
        twice, _ = run_seq(text, ops)
        if once != twice:
            out.append({"key": {"law": "idempotence", "effect": "second-application-changed-text"}, "detail": ""})
    elif ops[0].kind == "set" and ops[1].kind == "rm":
        back, _ = run_seq(text, ops)
        if back is not None and back != text:
            out.append({"key": {"law": "restore", "effect": "set-then-rm-did-not-restore-text"}, "detail": repr(back)})
    elif ops[0].kind == "rm":
        again, _ = run_seq(text, ops)
        if again is not None and tree_of(again) != tree_of(text):
            out.append({"key": {"law": "rm-set-tree", "effect": "tree-differs"}, "detail": repr(again)})
    else:
        ab, _ = run_seq(text, ops)
        ba, _ = run_seq(text, ops[::-1])
        if ab is not None and ba is not None and ab != ba:
            out.append({"key": {"law": "commute", "effect": "order-dependent-text"}, "detail": ""})
    return out
