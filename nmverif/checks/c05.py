"""C05 - a successful edit yields valid Nix with exactly the requested attribute change."""

import random
import time

from nmverif.checks import _editbase as B
from nmverif.engines import edit as E
from nmverif.monitor.sysmon import FunctionCoverage
from nmverif.oracle import attrtree as A
from nmverif.oracle import editjudge as J
from nmverif.worker import wal

PROPERTY = "C05"
LEVEL = "exploration"
SHARD_TIMEOUT = 900
FLOORS = {"nontrivial": 2000, "observed": {"outcomes.ok": 1500, "op_classes": 10}}
RULE = ("G-doc documents (canonical RFC layout and non-canonical variants; bare / lambda / let / "
        "with / assert / call wrappers and stacks; plain, nested, attrpath, quoted, inherit "
        "bindings) x histories of 1-6 set/rm operations chosen from the decoded attribute tree "
        "(replace, fresh, fresh-in-explicit, fresh-in-attrpath, deep, rm, refusable ones, scoped); "
        "the real set_value/remove_value run on one live document object and every step is judged "
        "against the reference model on the attribute tree decoded from the previous text by an "
        "independent CST reader; non-trivial = a step whose operation was well-formed and reached "
        "the edit code (succeeded or was refused by it); distinct by (text before, op) hash")
ASSUMPTIONS = [
    "reference semantics from docs/cli.md and the statement of C05 (oracle/editmodel.py)",
    "mixed explicit/attrpath shapes on the path get the semantic check only when the edit succeeds",
    "values at edited paths are literals or unbound identifiers (bound references are C11's subject)",
    "`@name` with no layer where `name` exists in the body is outside the model (test-pinned fallback)",
]


def plan(tier, seed):
    n_shards = 16 if tier == "quick" else 64
    docs = 260 if tier == "quick" else 2200
    return [{"seed": seed * 7919 + i * 104729 + 5, "docs": docs, "max_hist": 6 if tier == "quick" else 12}
            for i in range(n_shards)]


def semantic_digest(r):
    """Exception type, or the decoded attribute trees of target and layers (layout-free)."""
    if r.exc_type is not None or r.out is None:
        return ("exc", r.exc_type)
    dv = A.decode(r.out)
    if dv.error or dv.target is None:
        return ("bad", dv.reason)
    return ("ok", repr(A.to_plain(A.merge(dv.target.bindings))),
            repr([A.to_plain(A.merge(l)) for l in dv.layers]),
            tuple(w for w in dv.wrappers if w != "paren"))


def step_key(dv, op):
    k = {"op": op.kind, "cls": op.cls, "wrappers": E.wrappers_label(dv),
         "layers": str(min(len(dv.layers), 3))}
    k.update(B.mixed_keys(dv, op.npath))
    return k


def run_shard(spec):
    rng = random.Random(spec["seed"])
    res = B.new_result()
    obs = res["observed"]
    cov = FunctionCoverage()
    cov.start()
    nontriv = set()
    for di in range(spec["docs"]):
        text, doc, canonical = B.make_document(rng)
        wal(f"doc {spec['seed']}:{di}")
        try:
            live = E.LiveDoc(text)
        except Exception as exc:  # noqa: BLE001 - a valid document the library refuses is C01's
            B.bump(obs, "documents_refused_by_parse")
            continue
        hist = []
        last_ok = None
        for si in range(rng.randrange(1, spec["max_hist"] + 1)):
            dv = A.decode(live.text)
            if dv.error or dv.target is None:
                break
            ops = E.choose_ops(rng, dv, 1)
            if not ops:
                break
            op = ops[0]
            if op.cls.startswith("scope") and not dv.layers and op.npath.lstrip("@").split(".")[0] in \
                    {b.path[0] for b in dv.target.bindings if b.kind == "bind" and isinstance(b.path[0], str)}:
                continue
            before = live.text
            r = live.apply(op)
            hist.append((op.kind, op.npath, op.value))
            if si > 0:
                # the live object must behave like a fresh parse of its own text
                twin = E.fresh_apply(before, op)
                if semantic_digest(twin) != semantic_digest(r):
                    k = {"effect": "history-dependent-result", "op": op.kind, "cls": op.cls}
                    k.update(B.mixed_keys(dv, op.npath))
                    for name, val in (last_ok or {}).items():
                        k["culprit_" + name] = val
                    B.record(res, k, {"text": before, "op": [op.kind, op.npath, op.value],
                                      "history": hist[:-1], "initial": text},
                             f"LIVE={r.out!r}/{r.exc_type} FRESH={twin.out!r}/{twin.exc_type}")
                    res["evaluations"] += 1
                    break
            res["evaluations"] += 1
            B.bump(obs["ops"], op.kind)
            B.bump(obs["op_classes"], op.cls)
            B.bump(obs["wrappers"], E.wrappers_label(dv))
            B.bump(obs["outcomes"], "ok" if r.exc_type is None else r.exc_type)
            base = step_key(dv, op)
            keys = J.judge_semantics(dv, op, r, base_key=base)
            B.bump(obs["shapes"], base.get("shape", "n/a"))
            if op.cls not in ("malformed-path", "bad-value"):
                nontriv.add(B.h64(before + "\0" + op.kind + op.npath + "\0" + op.value))
            for k in keys:
                k["canonical"] = "yes" if canonical and si == 0 else "no"
                k["step"] = "first" if si == 0 else "later"
                B.record(res, k, {"text": before, "op": [op.kind, op.npath, op.value],
                                  "history": hist[:-1], "initial": text if si else None},
                         f"OUT={r.out!r} EXC={r.exc_type}: {r.exc_msg}")
            if keys:
                break  # the live object may now disagree with its text: later steps are tainted
            if r.exc_type is None:
                this_ok = {k: v for k, v in base.items() if k in ("op", "cls", "shape", "via_nested_attrpath_set")}
                # an earlier edit through a nested set with attrpath bindings stays the prime suspect
                if not (last_ok and last_ok.get("via_nested_attrpath_set") == "yes"):
                    last_ok = this_ok
            if len(res["samples"]) < 3 and res["evaluations"] % 211 == 1:
                res["samples"].append({"before": before[:300], "op": [op.kind, op.npath, op.value],
                                       "after": (r.out or "")[:300], "exception": r.exc_type})
    cov.stop()
    res["nontrivial"] = sorted(nontriv)
    obs["functions_entered"] = sorted(f for f in cov.entered if "manipulations" in f or "set:" in f or "scope" in f)
    return res


def replay(case):
    dv = A.decode(case["text"])
    op = E.Op(case["op"][0], case["op"][1], case["op"][2], "replay")
    r = E.fresh_apply(case["text"], op)
    keys = J.judge_semantics(dv, op, r, base_key={"op": op.kind, "cls": "replay",
                                                  "wrappers": E.wrappers_label(dv),
                                                  "layers": str(min(len(dv.layers), 3))})
    return [{"key": k, "detail": f"OUT={r.out!r} EXC={r.exc_type}: {r.exc_msg}"} for k in keys]
