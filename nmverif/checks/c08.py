"""C08 - a rejected edit is loud and leaves the document exactly as it was."""

import contextlib
import io
import os
import random
import tempfile

from nmverif.checks import _editbase as B
from nmverif.checks.c05 import semantic_digest
from nmverif.engines import edit as E
from nmverif.oracle import attrtree as A
from nmverif.oracle import editmodel as M
from nmverif.worker import wal

PROPERTY = "C08"
LEVEL = "fault_enumeration"
SHARD_TIMEOUT = 900
FLOORS = {"nontrivial": 1500, "observed": {"rejected_ops": 1500, "reject_classes": 8,
                                           "twin_steps_after_rejection": 800}}
RULE = ("fault sequences: on editable documents (all wrapper shapes) and non-editable ones (list, "
        "string, lambda returning a list, empty, erroneous), operations chosen to fail for each "
        "documented reason (missing key, empty / malformed path, path through a non-set, "
        "attrpath-root overwrite, missing scope layer, unsupported top-level shape, invalid "
        "value) are interleaved with succeeding ones on the same live object, 3-25 operations per "
        "history; after every raising call: exception class is KeyError/ValueError, "
        "source.rebuild() equals the text before the attempt, and every later operation gives "
        "the same result (tree or exception class) on the live object and on a twin parsed from "
        "its text; the in-process CLI leg checks empty stdout and non-zero exit.  non-trivial = a "
        "rejected operation; distinct by (text, op) hash")
ASSUMPTIONS = [
    "the live object is re-synchronised (fresh parse) after every successful edit so that hidden state of successful edits (C05's subject) cannot be blamed on a rejected one",
    "later behaviour is compared by attribute trees / exception classes, not by layout",
]

NON_EDITABLE = ["[ 1 2 ]\n", '"just a string"\n', "a: [ a ]\n", "", "   \n", "{ a = \n", "x\n",
                "{ a = 1; } // { b = 2; }\n", "if c then { a = 1; } else { b = 2; }\n"]


# classes of failing_op whose refusal is certain (the reason is one of the documented ones and
# does not depend on what the document contains beyond what failing_op looked at)
MUST_BE_REFUSED = {"missing-key", "malformed-path", "through-non-set", "attrpath-root-overwrite",
                   "attrpath-root-overwrite-mixed", "through-inherited", "missing-scope-layer",
                   "invalid-value", "scope-without-name"}


def failing_op(rng, dv):
    """An operation intended to be refused, with its reason label."""
    val = rng.choice(E.VALUE_POOL)
    tree = A.merge(dv.target.bindings) if dv.target is not None else A.TNode("set")
    paths = [(p, nd) for p, nd in E.all_paths(tree) if not any(s.startswith("\x00dyn:") for s in p)]
    leaves = [p for p, nd in paths if nd.kind == "leaf" and not (nd.tokens and nd.tokens[0][0] == "inherit")]
    attr_sets = [p for p, nd in paths if nd.kind == "set" and nd.via_attrpath and not nd.explicit and len(p) == 1]
    mixed_sets = [p for p, nd in paths if nd.kind == "set" and nd.via_attrpath and nd.explicit and len(p) == 1]
    inherited = [p for p, nd in paths if nd.kind == "leaf" and nd.tokens and nd.tokens[0][0] == "inherit"]
    if dv.target is not None:
        # (a name that is inherited *and* bound explicitly is not "only inherited")
        explicit_names = {b.path[0] for b in dv.target.bindings if b.kind == "bind" and b.path}
        inherited = [p for p in inherited if len(p) != 1 or p[0] not in explicit_names]
    k = rng.random()
    if mixed_sets and rng.random() < 0.35:
        return E.Op("set", E.spell(rng.choice(mixed_sets)), val, "attrpath-root-overwrite-mixed")
    if k < 0.10 and inherited:
        p = rng.choice(inherited)
        return E.Op(rng.choice(["set", "rm"]), E.spell(p + ("deeper",)), val, "through-inherited")
    if k < 0.16:
        name = "absent" + str(rng.randrange(99))
        while name in tree.children:
            name += "x"
        return E.Op("rm", name, "", "missing-key")
    if k < 0.30:
        mp = rng.choice(E.MALFORMED_PATHS)
        if rng.random() < 0.45 and mp and not mp.startswith("@"):
            # the same malformed remainder behind a scope selector
            mp = "@" * rng.choice([1, 1, 2]) + mp
        return E.Op(rng.choice(["set", "rm"]), mp, val, "malformed-path")
    if k < 0.44 and leaves:
        p = rng.choice(leaves)
        return E.Op(rng.choice(["set", "rm"]), E.spell(p + ("deeper",)), val, "through-non-set")
    if k < 0.56 and attr_sets:
        return E.Op("set", E.spell(rng.choice(attr_sets)), val, "attrpath-root-overwrite")
    if k < 0.62 and attr_sets:
        return E.Op("rm", E.spell(rng.choice(attr_sets)), "", "attrpath-root-rm")
    if k < 0.76:
        depth = len(dv.layers) + rng.choice([1, 1, 2, 4]) + (1 if not dv.layers else 0)
        layer_names = [b.path[0] for l in dv.layers for b in l if b.kind == "bind" and b.path]
        name = rng.choice(layer_names) if layer_names and rng.random() < 0.6 else "deep" + str(rng.randrange(9))
        return E.Op(rng.choice(["set", "rm"]), "@" * depth + E.spell((name,)), val, "missing-scope-layer")
    if k < 0.80:
        return E.Op("rm", "@nolayer" + str(rng.randrange(9)), "", "missing-scope-key")
    if k < 0.94:
        at = rng.choice(["", "", "@", "@"]) if dv.target is not None else ""
        tail = rng.choice(["", "", ".sub"])
        return E.Op("set", at + "fresh" + str(rng.randrange(99)) + tail, rng.choice(E.BAD_VALUES), "invalid-value")
    return E.Op("rm", "@@", "", "scope-without-name")


def cli_leg(text, op):
    """In-process CLI: stdout must stay empty and the exit status non-zero on failure."""
    from nix_manipulator.cli.main import main
    fd, path = tempfile.mkstemp(suffix=".nix", prefix="nmverif-c08-")
    try:
        with os.fdopen(fd, "w") as fh:
            fh.write(text)
        argv = [op.kind, "-f", path, op.npath] + ([op.value] if op.kind == "set" else [])
        out = io.StringIO()
        err = io.StringIO()
        status = None
        exc = None
        try:
            with contextlib.redirect_stdout(out), contextlib.redirect_stderr(err):
                status = main(argv)
        except SystemExit as e:
            status = e.code if isinstance(e.code, int) else 1
        except BaseException as e:  # noqa: BLE001 - an uncaught exception is a non-zero exit
            exc = type(e).__name__
            status = 1
        return status, out.getvalue(), exc
    finally:
        os.unlink(path)


def plan(tier, seed):
    n_shards = 16 if tier == "quick" else 64
    docs = 150 if tier == "quick" else 1500
    return [{"seed": seed * 3571 + i * 2750159 + 9, "docs": docs} for i in range(n_shards)]


def run_shard(spec):
    rng = random.Random(spec["seed"])
    res = B.new_result()
    obs = res["observed"]
    obs.update({"rejected_ops": 0, "reject_classes": {}, "twin_steps_after_rejection": 0,
                "cli_leg_runs": 0, "non_editable_docs": 0})
    nontriv = set()
    for di in range(spec["docs"]):
        if rng.random() < 0.12:
            text = rng.choice(NON_EDITABLE)
            obs["non_editable_docs"] += 1
        else:
            text, _doc, _c = B.make_document(rng)
        wal(f"doc {spec['seed']}:{di}")
        try:
            live = E.LiveDoc(text)
        except Exception:  # noqa: BLE001
            B.bump(obs, "documents_refused_by_parse")
            continue
        failures_since_sync = 0
        hist = []
        # shadow: a second object that receives only the operations the live object accepted; if
        # rejected edits leave nothing behind, both behave alike for the rest of the history
        try:
            shadow = E.LiveDoc(text)
            longlive = E.LiveDoc(text)   # never re-synchronised, receives every operation
        except Exception:  # noqa: BLE001
            shadow = longlive = None
        total_failures = 0
        followups: list = []
        for si in range(rng.randrange(3, 26)):
            cur_text = live.text
            dv = A.decode(cur_text)
            if followups:
                # stay in the neighbourhood of the last rejected edit: what it may have left behind
                # shows when its path, its parents and its root are edited next
                op = followups.pop(0)
            elif dv.target is not None and rng.random() < 0.45:
                ops = E.choose_ops(rng, dv, 1, failing=0.0)
                op = ops[0] if ops else failing_op(rng, dv)
            else:
                op = failing_op(rng, dv)
            try:
                before_rebuild = live.rebuild()
            except Exception:  # noqa: BLE001
                break
            twin = E.LiveDoc(cur_text) if failures_since_sync else None
            r = live.apply(op)
            hist.append((op.kind, op.npath, op.value))
            res["evaluations"] += 1
            B.bump(obs["ops"], op.kind)
            B.bump(obs["op_classes"], op.cls)
            B.bump(obs["outcomes"], "ok" if r.exc_type is None else r.exc_type)
            base = {"op": op.kind, "cls": op.cls, "wrappers": E.wrappers_label(dv) if dv.target else "non-editable",
                    "failures_before": str(min(failures_since_sync, 3))}
            base.update(B.mixed_keys(dv, op.npath))
            keys = []
            if longlive is not None and shadow is not None:
                # the never re-synchronised pair: `longlive` gets every operation, `shadow` only those
                # that `longlive` accepted; successes (and their hidden state) are shared, rejections
                # are not, so any divergence is what a rejected edit left behind
                rl = longlive.apply(op)
                if rl.exc_type is not None and not E.is_documented(rl):
                    # an operation of another kind earlier in the history left something behind that
                    # makes this one fail in an undocumented way
                    k = dict(base)
                    k.update({"effect": "undocumented-exception", "exc": rl.exc_type, "on": "long-lived-document",
                              "msg": (rl.exc_msg or "").split(":")[0][:48]})
                    keys.append(k)
                    longlive = shadow = None
                elif rl.exc_type is None:
                    rs = shadow.apply(op)
                    obs["shadow_steps"] = obs.get("shadow_steps", 0) + 1
                    if total_failures and semantic_digest(rs) != semantic_digest(rl):
                        k = dict(base)
                        k["effect"] = "history-with-rejected-edits-diverges"
                        k["shadow"] = rs.exc_type or "ok"
                        keys.append(k)
                        longlive = shadow = None
                    elif rs.exc_type is not None:
                        longlive = shadow = None
                else:
                    if total_failures:
                        # `longlive` refuses after an earlier rejection: would a document that never
                        # saw the rejected edits accept?  (a fresh parse of the same text is asked
                        # first so that the shadow only receives operations it can take)
                        probe = E.fresh_apply(shadow.text, op)
                        if probe.exc_type is None:
                            rs = shadow.apply(op)
                            if rs.exc_type is None:
                                k = dict(base)
                                k["effect"] = "history-with-rejected-edits-diverges"
                                k["shadow"] = "ok"
                                k["live"] = rl.exc_type
                                keys.append(k)
                            longlive = shadow = None
                    total_failures += 1
            if twin is not None:
                rt = twin.apply(op)
                obs["twin_steps_after_rejection"] += 1
                if semantic_digest(rt) != semantic_digest(r):
                    k = dict(base)
                    k["effect"] = "behaviour-differs-after-rejected-edit"
                    k["live"] = r.exc_type or "ok"
                    k["twin"] = rt.exc_type or "ok"
                    keys.append(k)
            if r.exc_type is not None:
                obs["rejected_ops"] += 1
                B.bump(obs["reject_classes"], op.cls)
                nontriv.add(B.h64(cur_text + "\0" + op.kind + op.npath + "\0" + op.value))
                if not E.is_documented(r):
                    k = dict(base)
                    k.update({"effect": "undocumented-exception", "exc": r.exc_type,
                              "msg": (r.exc_msg or "").split(":")[0][:48]})
                    keys.append(k)
                if r.after_rebuild != before_rebuild:
                    k = dict(base)
                    k["effect"] = "state-changed-by-rejected-edit"
                    k["exc"] = r.exc_type
                    keys.append(k)
                if rng.random() < 0.08:
                    status, stdout, exc = cli_leg(cur_text, op)
                    obs["cli_leg_runs"] += 1
                    if stdout != "" or status in (0, None):
                        k = dict(base)
                        k.update({"effect": "cli-rejection-not-loud", "status": str(status),
                                  "stdout": "empty" if stdout == "" else "non-empty"})
                        keys.append(k)
                failures_since_sync += 1
                if not followups and rng.random() < 0.5:
                    try:
                        depth_, segs_ = M.parse_npath(op.npath)
                        at_ = "@" * depth_
                        v_ = rng.choice(E.VALUE_POOL)
                        if len(segs_) >= 2:
                            followups = [E.Op("rm", at_ + E.spell(tuple(segs_[:-1])), "", "followup-rm-parent"),
                                         E.Op("set", at_ + E.spell(tuple(segs_[:1])), v_, "followup-set-root"),
                                         E.Op("set", at_ + E.spell(tuple(segs_[:1]) + ("q",)), v_, "followup-set-under-root")]
                            if rng.random() < 0.3:
                                rng.shuffle(followups)
                                followups = followups[: rng.choice([1, 2, 3])]
                        else:
                            followups = [E.Op("set", at_ + E.spell(tuple(segs_)), v_, "followup-set-same"),
                                         E.Op("rm", at_ + E.spell(tuple(segs_)), "", "followup-rm-same")][: rng.choice([1, 2])]
                    except Exception:  # noqa: BLE001
                        followups = []
            else:
                if op.cls in MUST_BE_REFUSED:
                    # built so that it cannot be applied, for a documented reason
                    k = dict(base)
                    k["effect"] = "inapplicable-edit-accepted"
                    keys.append(k)
                # re-synchronise after a success (hidden state of successes is C05's subject)
                try:
                    live = E.LiveDoc(r.out)
                except Exception:  # noqa: BLE001
                    break
                failures_since_sync = 0
                if op.kind == "set" and op.cls in ("fresh-in-attrpath", "fresh-deep", "fresh-in-explicit") \
                        and not followups and rng.random() < 0.5:
                    # an operation of another kind next to what was just written: remove the
                    # binding that stands in front of the new one (the long-lived pair sees both)
                    try:
                        dvo = A.decode(r.out)
                        _d, segs_n = M.parse_npath(op.npath)
                        bl = dvo.target.bindings
                        idx = next((i for i, b in enumerate(bl) if b.kind == "bind" and list(b.path) == list(segs_n)), None)
                        if idx:
                            prevb = bl[idx - 1]
                            if prevb.kind == "bind":
                                followups = [E.Op("rm", E.spell(tuple(prevb.path)), "", "followup-rm-before-new")]
                    except Exception:  # noqa: BLE001
                        followups = []
            for k in keys:
                B.record(res, k, {"text": cur_text, "op": [op.kind, op.npath, op.value],
                                  "history": hist[:-1], "initial": text},
                         f"EXC={r.exc_type}: {r.exc_msg} BEFORE={before_rebuild!r} AFTER={r.after_rebuild!r}")
            if keys:
                break
            if len(res["samples"]) < 3 and r.exc_type and res["evaluations"] % 101 == 1:
                res["samples"].append({"text": cur_text[:200], "op": [op.kind, op.npath, op.value],
                                       "exception": f"{r.exc_type}: {r.exc_msg}"[:120]})
    res["nontrivial"] = sorted(nontriv)
    return res


def replay(case):
    """Replays the whole history on a fresh document (rejections accumulate on one object)."""
    live = E.LiveDoc(case["initial"])
    out = []
    hist = list(case["history"]) + [case["op"]]
    fails = 0
    for kind, npath, value in hist:
        op = E.Op(kind, npath, value, "replay")
        before = live.rebuild()
        twin = E.LiveDoc(live.text) if fails else None
        r = live.apply(op)
        if twin is not None:
            rt = twin.apply(op)
            if semantic_digest(rt) != semantic_digest(r):
                out.append({"key": {"effect": "behaviour-differs-after-rejected-edit"}, "detail": repr(op)})
        if r.exc_type is not None:
            fails += 1
            if not E.is_documented(r):
                out.append({"key": {"effect": "undocumented-exception", "exc": r.exc_type,
                                    "msg": (r.exc_msg or "").split(":")[0][:48]}, "detail": repr(op)})
            if r.after_rebuild != before:
                out.append({"key": {"effect": "state-changed-by-rejected-edit", "exc": r.exc_type},
                            "detail": repr(op)})
        else:
            live = E.LiveDoc(r.out)
            fails = 0
    return out
