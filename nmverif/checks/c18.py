"""C18 - rebuilt text is in the formatter's spacing normal form."""

from nmverif.checks import _rtbase
from nmverif.oracle import roundtrip as R

PROPERTY = "C18"
LEVEL = "exploration"
SHARD_TIMEOUT = 900
FLOORS = {"nontrivial": 3000}
RULE = ("G-grid + G-nix 'hostile' (tabs, runs of spaces, alignment padding, blank-line runs, "
        "CRLF, comments) ; the spacing scanner runs over the gaps between adjacent CST leaves of "
        "the output; non-trivial = structural path and the input contained at least one "
        "non-canonical gap (differs from its own rebuild); distinct by content hash")
ASSUMPTIONS = [
    "gaps inside strings, indented strings, paths (including their interpolations) and comments are content, not judged",
    "a comment that shares its line with code counts as a token of that line: padding of more than one blank around it is judged (rule multi-space-at-comment)",
    "closing delimiters are judged only where the structure is unambiguous (the opener starts its line, or its line starts with the binding that contains it and no earlier container on that line is still open)",
    "own-line comment indentation is judged only between items of a set / list / let / formals",
]


def judge(ob, rin, rout):
    if ob.out is None or rout is None or rout.error:
        return []
    return R.judge_spacing(rout)


def nontrivial(rin, ob):
    return ob.out is not None and not ob.passthrough and ob.out != ob.text


def plan(tier, seed):
    return _rtbase.standard_plan(tier, seed, modes=["hostile", "hostile", "line-comments"],
                                 n_random_quick=25000, n_random_thorough=600000, adj=True)


def run_shard(spec):
    return _rtbase.run(spec, judge, passes=1, nontrivial=nontrivial)


def replay(case):
    return _rtbase.replay_case(case, judge, 1)
