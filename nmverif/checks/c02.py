"""C02 - RFC-0166-formatted source is reproduced byte for byte."""

import contextlib
import io
import os
import random
import sys

from nmverif.checks import _editbase as B
from nmverif.gen import canon, certified
from nmverif.monitor.sysmon import FunctionCoverage
from nmverif.oracle import cst
from nmverif.worker import wal, wal_text

PROPERTY = "C02"
LEVEL = "exploration"
SHARD_TIMEOUT = 900
FLOORS = {"nontrivial": 3000, "observed": {"idioms": 14, "sources.canon": 2000, "sources.certified": 50}}
RULE = ("G-canon files built only from layouts with RFC-0166 / nixfmt provenance (table in "
        "gen/canon.py): optional header comment, formals / identifier lambda head, let block, call "
        "head, with / assert wrappers, expanded and inline sets, attrpath bindings, inherit, "
        "quoted names, inline and expanded lists, indented strings, one-line with / if / select / "
        "operator values, own-line and end-of-line comments, single blank lines, 1-60 bindings, "
        "nesting <= 4, 0-3 let layers; plus the 58 certified literals of tests/test_reproduce_simple.py "
        "(validated against nixfmt upstream) varied by consistent identifier renaming and by "
        "embedding as a binding value; parse(t).rebuild() must equal t and in-process `nima test` "
        "must print OK; non-trivial = structural path (not pass-through); distinct by content hash")
ASSUMPTIONS = [
    "canonicity comes from provenance, not from an external formatter (none exists in the sandbox): every emitted layout is tied to an RFC section and a nixfmt-validated literal",
    "multi-line formals (trailing comma) are pass-through with the installed grammar and are counted separately",
]


def cli_test(text: str):
    from nix_manipulator.cli.main import main
    out = io.StringIO()
    old = sys.stdin
    sys.stdin = io.StringIO(text)
    try:
        with contextlib.redirect_stdout(out):
            try:
                status = main(["test"])
            except SystemExit as e:
                status = e.code
            except Exception as e:  # noqa: BLE001
                return ("exc:" + type(e).__name__, out.getvalue())
    finally:
        sys.stdin = old
    return status, out.getvalue()


def idioms_of(doc: canon.Doc) -> set[str]:
    ids = set()
    if doc.header:
        ids.add("header-comment")
    if doc.head_comments:
        ids.add("head-comment")
    if doc.head_blank:
        ids.add("head-blank-line")
    for w in doc.wrappers:
        ids.add("wrapper:" + w[0])

    def walk(s: canon.SetNode, depth):
        ids.add("inline-set" if (s.inline and len(s.entries) <= 1) else ("empty-set" if not s.entries else "expanded-set"))
        if s.rec:
            ids.add("rec")
        if s.trailing:
            ids.add("set-trailer-comment")
            if s.trailing_blank:
                ids.add("set-trailer-comment-after-blank")
            if s.entries and s.entries[-1].eol:
                ids.add("eol-comment-then-trailer")
        for e in s.entries:
            ids.add("entry:" + e.kind)
            if e.above:
                ids.add("own-line-comment")
            if e.eol:
                ids.add("eol-comment")
            if e.blank_before:
                ids.add("blank-line")
            if e.value_lines:
                ids.add("multiline-value:" + e.value_lines[0][:2])
            if e.sub is not None:
                ids.add(f"nesting-{min(depth + 1, 4)}")
                walk(e.sub, depth + 1)
    walk(doc.target, 0)
    return ids


def plan(tier, seed):
    n_shards = 16 if tier == "quick" else 64
    docs = 700 if tier == "quick" else 5000
    specs = [{"kind": "canon", "seed": seed * 1237 + i * 982451653 + 41, "docs": docs} for i in range(n_shards)]
    specs.append({"kind": "certified", "seed": seed * 17 + 3, "variants": 20 if tier == "quick" else 300})
    return specs


def run_shard(spec):
    from nix_manipulator import parse
    rng = random.Random(spec["seed"])
    res = B.new_result()
    obs = res["observed"]
    obs.update({"idioms": {}, "sources": {}, "pass_through": 0, "idiom_pairs": 0, "sizes": {}})
    nontriv = set()
    pairs = set()
    cov = FunctionCoverage()
    cov.start()

    def check(text: str, source: str, meta: dict):
        wal_text(text)
        res["evaluations"] += 1
        B.bump(obs["sources"], source)
        if cst.has_error(text) and not cst.parses_ok(text):
            B.bump(obs, "generator_rejected")
            return
        try:
            doc = parse(text)
            out = doc.rebuild()
        except Exception as exc:  # noqa: BLE001
            B.record(res, {"effect": "raised", "exc": type(exc).__name__, "source": source},
                     {"text": text, **meta}, f"{type(exc).__name__}: {exc}")
            return
        if doc.contains_error:
            obs["pass_through"] += 1
            return
        nontriv.add(B.h64(text))
        try:
            out_again = doc.rebuild()
        except Exception as exc:  # noqa: BLE001
            out_again = f"<{type(exc).__name__}>"
        if out == text and out_again != out:
            B.record(res, {"effect": "second-rebuild-differs", "source": source}, {"text": text, **meta},
                     f"FIRST={out!r} SECOND={out_again!r}"[:1500])
            return
        if out != text:
            a, b = text.split("\n"), out.split("\n")
            d = next((i for i in range(min(len(a), len(b))) if a[i] != b[i]), min(len(a), len(b)))
            la = a[d] if d < len(a) else "<eof>"
            lb = b[d] if d < len(b) else "<eof>"
            if la.strip() == lb.strip():
                kind = "indentation"
            elif la.strip() == "" or lb.strip() == "":
                kind = "blank-line"
            elif la.lstrip().startswith("#") or lb.lstrip().startswith("#"):
                kind = "comment-line"
            elif d >= len(a) - 1:
                kind = "file-end"
            else:
                kind = "line-content"
            first_tok = (la.strip().split(" ")[0] if la.strip() else "")
            B.record(res, {"effect": "not-reproduced", "diff": kind, "source": source,
                           "line_starts_with": first_tok[:12] if not first_tok[:1].isalnum() else "word"},
                     {"text": text, **meta}, f"EXPECTED_LINE={la!r} GOT_LINE={lb!r} OUT={out!r}"[:1500])
            return
        if rng.random() < 0.2:
            status, stdout = cli_test(text)
            B.bump(obs, "cli_test_runs")
            if (status, stdout) != (0, "OK\n"):
                B.record(res, {"effect": "nima-test-rejects-canonical", "source": source},
                         {"text": text, **meta}, f"status={status!r} stdout={stdout!r}")

    if spec["kind"] == "canon":
        for di in range(spec["docs"]):
            g = canon.DocGen(rng, hyphen=True, max_entries=rng.choice([3, 7, 7, 15, 60]),
                             depth=rng.choice([1, 2, 3, 4]),
                             comment_rate=rng.choice([1.0, 1.0, 3.0, 6.0]))
            d = g.doc(layers=rng.choice([0, 0, 1, 1, 2, 3]))
            text = canon.render(d)
            ids = idioms_of(d)
            for i in ids:
                B.bump(obs["idioms"], i)
            for a in ids:
                for b in ids:
                    if a < b:
                        pairs.add((a, b))
            B.bump(obs["sizes"], str(min(len(text.split("\n")) // 25 * 25, 200)))
            check(text, "canon", {"idioms": sorted(ids)})
            if len(res["samples"]) < 2 and di % 131 == 7:
                res["samples"].append({"text": text[:500]})
    else:
        repo = os.environ.get("NIMA_REPO", "/repo")
        seeds = certified.certified_sources(repo)
        obs["certified_seeds"] = len(seeds)
        for name, text in seeds:
            check(text, "certified", {"test": name})
            for v in range(spec["variants"]):
                try:
                    t2 = certified.rename_identifiers(text, rng)
                except Exception:  # noqa: BLE001
                    continue
                if t2 != text and not cst.has_error(t2):
                    check(t2, "certified-renamed", {"test": name})
                emb = certified.embed_as_binding(text if v % 2 == 0 else t2, rng.choice(["wrapped", "val", "cfg"]))
                if emb is not None and not cst.has_error(emb):
                    check(emb, "certified-embedded", {"test": name})
        res["samples"].append({"certified_example": seeds[0][1][:200] if seeds else ""})
    cov.stop()
    obs["idiom_pairs"] = len(pairs)
    obs["functions_entered_count"] = len(cov.entered)
    res["nontrivial"] = sorted(nontriv)
    return res


def replay(case):
    from nix_manipulator import parse
    out = parse(case["text"]).rebuild()
    if out != case["text"]:
        return [{"key": {"effect": "not-reproduced"}, "detail": repr(out)}]
    return []
