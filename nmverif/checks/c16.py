"""C16 - the command line reports and emits exactly what the library computes."""

import contextlib
import io
import os
import random
import subprocess
import sys
import tempfile

from nmverif.checks import _editbase as B
from nmverif.engines import edit as E
from nmverif.gen import canon, damage
from nmverif.oracle import attrtree as A
from nmverif.oracle import cst
from nmverif.oracle import editmodel as M
from nmverif.worker import wal

PROPERTY = "C16"
LEVEL = "exploration"
SHARD_TIMEOUT = 900
FLOORS = {"nontrivial": 400, "observed": {"subprocess_runs": 300, "inprocess_runs": 3000,
                                          "commands": 3, "channels": 2}}
RULE = ("inputs {canonical, non-canonical valid, erroneous (damaged), empty, whitespace only, no "
        "final newline, two final newlines, CRLF} x commands {test, set ok, set failing for each "
        "reason, rm ok, rm failing} x channel {stdin, -f FILE}; the observed system is the real "
        "`python -m nix_manipulator` subprocess (stdout, exit status) and, for volume, in-process "
        "main(argv) with redirected streams (cross-checked against the subprocess on the shared "
        "sample); the expected (stdout, status) is computed from in-process library calls by the "
        "CLI model; plus the redirect-over-file loop (5x `nima set` over its own output: newline "
        "count must not grow and `nima test` must accept).  non-trivial = a run whose command "
        "reached the library; distinct by (input, argv, channel) hash")
ASSUMPTIONS = [
    "CLI model: test -> OK/0 iff no syntax error (oracle parser) and library rebuild == input; set/rm -> library text plus a newline only if it lacks one, exit 0; any library exception -> empty stdout, non-zero exit",
    "stderr is not judged",
]

PY = os.environ.get("NIMA_PYTHON", sys.executable)


def model(text: str, argv: list[str]):
    """Expected (stdout, ok) from library calls."""
    from nix_manipulator import parse
    from nix_manipulator.cli.manipulations import remove_value, set_value
    cmd = argv[0]
    try:
        if cmd == "test":
            src = parse(text)
            if cst.has_error(text) or src.contains_error:
                return "Fail\n", 1
            return ("OK\n", 0) if src.rebuild() == text else ("Fail\n", 1)
        src = parse(text)
        out = set_value(src, argv[1], argv[2]) if cmd == "set" else remove_value(src, argv[1])
        return (out if out.endswith("\n") else out + "\n"), 0
    except Exception:  # noqa: BLE001 - any library error: loud and empty
        return "", "nonzero"


def run_subprocess(text: str, argv: list[str], channel: str):
    repo = os.environ.get("NIMA_REPO", "/repo")
    env = dict(os.environ)
    env["PYTHONPATH"] = repo
    env["PYTHONDONTWRITEBYTECODE"] = "1"
    if channel == "file":
        fd, path = tempfile.mkstemp(suffix=".nix", prefix="nmverif-c16-")
        with os.fdopen(fd, "w", encoding="utf-8", newline="") as fh:
            fh.write(text)
        try:
            cp = subprocess.run([PY, "-m", "nix_manipulator", argv[0], "-f", path] + argv[1:],
                                capture_output=True, env=env, timeout=120, cwd=repo)
        finally:
            os.unlink(path)
    else:
        cp = subprocess.run([PY, "-m", "nix_manipulator"] + argv, input=text.encode("utf-8"),
                            capture_output=True, env=env, timeout=120, cwd=repo)
    return cp.stdout.decode("utf-8", "replace"), cp.returncode


DECOY = "{\n  decoy = 1;\n}\n"


def run_inprocess(text: str, argv: list[str], channel: str, form: str = "after-command"):
    """form: where `-f FILE` stands - after-command (documented), at-end, before-command.  In the
    file channel stdin always holds a decoy document: reading it instead of FILE shows."""
    from nix_manipulator.cli.main import main
    out = io.StringIO()
    err = io.StringIO()
    old_stdin = sys.stdin
    path = None
    try:
        if channel == "file":
            fd, path = tempfile.mkstemp(suffix=".nix", prefix="nmverif-c16-")
            with os.fdopen(fd, "w", encoding="utf-8", newline="") as fh:
                fh.write(text)
            if form == "at-end":
                full = list(argv) + ["-f", path]
            elif form == "before-command":
                full = ["-f", path] + list(argv)
            else:
                full = [argv[0], "-f", path] + argv[1:]
            sys.stdin = io.StringIO(DECOY)
        else:
            sys.stdin = io.StringIO(text)
            full = list(argv)
        try:
            with contextlib.redirect_stdout(out), contextlib.redirect_stderr(err):
                status = main(full)
        except SystemExit as e:
            status = e.code if isinstance(e.code, int) else 1
        except BaseException:  # noqa: BLE001 - uncaught exception = traceback + exit 1
            status = 1
    finally:
        sys.stdin = old_stdin
        if path:
            os.unlink(path)
    return out.getvalue(), status


def inputs(rng):
    g = canon.DocGen(rng, hyphen=False, max_entries=5)
    text = canon.render(g.doc())
    k = rng.random()
    if k < 0.35:
        return "canonical", text
    if k < 0.50:
        t2 = E.noncanonical_variant(rng, text)
        return ("non-canonical", t2) if not cst.has_error(t2) else ("canonical", text)
    if k < 0.62:
        ds = list(damage.damaged_texts(text, rng, max_per_op=3, every_byte=False))
        rng.shuffle(ds)
        for _op, _pos, data in ds:
            if cst.has_error(data):
                return "erroneous", data.decode("utf-8", "replace")
        return "canonical", text
    if k < 0.67:
        return "empty", ""
    if k < 0.72:
        return "whitespace-only", rng.choice([" ", "\n", "\n\n  \n"])
    if k < 0.76:
        # a byte order mark in front (files written by some editors); whatever the library makes of
        # it, both channels have to hand it the same characters
        return "byte-order-mark", "\ufeff" + rng.choice([text, text.rstrip("\n"), "# caf\u00e9\n" + text])
    if k < 0.82:
        return "no-final-newline", text.rstrip("\n")
    if k < 0.90:
        return "two-final-newlines", text + "\n"
    return "crlf", text.replace("\n", "\r\n")


def commands(rng, text):
    dv = A.decode(text)
    k = rng.random()
    if k < 0.3:
        return "test", ["test"]
    if dv.target is not None and k < 0.7:
        ops = E.choose_ops(rng, dv, 1, failing=0.3)
        if ops:
            op = ops[0]
            return f"{op.kind}:{op.cls}", ([op.kind, op.npath, op.value] if op.kind == "set" else [op.kind, op.npath])
    kk = rng.random()
    if kk < 0.4:
        return "set:fresh", ["set", "fresh" + str(rng.randrange(99)), rng.choice(E.VALUE_POOL)]
    if kk < 0.6:
        return "rm:missing", ["rm", "absent" + str(rng.randrange(99))]
    if kk < 0.8:
        if dv.target is not None and rng.random() < 0.5:
            names = [b.path[0] for b in dv.target.bindings if b.kind == "bind" and len(b.path) == 1]
            if names:
                # an unusable VALUE aimed at a binding that exists (an empty VALUE is not `rm`)
                return "set:bad-value-existing", ["set", M.quote_segment(rng.choice(names)), rng.choice(E.BAD_VALUES)]
        return "set:bad-value", ["set", "x", rng.choice(E.BAD_VALUES)]
    return "set:malformed", ["set", rng.choice([p for p in E.MALFORMED_PATHS if p and not p.startswith("-")]), "1"]


def plan(tier, seed):
    n_shards = 16
    return [{"seed": seed * 2503 + i * 7368787 + 29,
             "subprocess": 40 if tier == "quick" else 1300,
             "inprocess": 650 if tier == "quick" else 19000,
             "loops": 3 if tier == "quick" else 40,
             "faults": 4 if tier == "quick" else 60} for i in range(n_shards)]


def run_shard(spec):
    rng = random.Random(spec["seed"])
    res = B.new_result()
    obs = res["observed"]
    obs.update({"subprocess_runs": 0, "inprocess_runs": 0, "commands": {}, "channels": {},
                "input_kinds": {}, "outcomes_expected": {}, "loop_runs": 0, "cross_checked": 0})
    nontriv = set()

    def judge(kind, text, label, argv, channel, got, mode):
        exp_out, exp_status = model(text, argv)
        out, status = got
        B.bump(obs["commands"], argv[0])
        B.bump(obs["channels"], channel)
        B.bump(obs["input_kinds"], kind)
        B.bump(obs["outcomes_expected"], "ok" if exp_status == 0 else ("fail-verdict" if exp_status == 1 else "error"))
        nontriv.add(B.h64(text + "\0" + "\0".join(argv) + channel))
        ok_status = (status != 0 and status is not None) if exp_status == "nonzero" else (status == exp_status)
        if out != exp_out or not ok_status:
            eff = "stdout-differs" if out != exp_out else "exit-status-differs"
            detail_kind = ""
            if out != exp_out:
                if exp_out == "" and out != "":
                    detail_kind = "output-on-error"
                elif out.rstrip("\n") == exp_out.rstrip("\n"):
                    detail_kind = "trailing-newlines"
                else:
                    detail_kind = "content"
            B.record(res, {"effect": eff, "command": label.split(":")[0], "cls": label, "input": kind,
                           "channel": channel, "mode": mode, "what": detail_kind,
                           "expected_status": str(exp_status), "status": str(status)},
                     {"text": text, "argv": argv, "channel": channel},
                     f"EXPECTED={exp_out!r}/{exp_status} GOT={out!r}/{status}")

    for i in range(spec["subprocess"]):
        kind, text = inputs(rng)
        label, argv = commands(rng, text)
        channel = rng.choice(["stdin", "file"])
        wal(f"sub {spec['seed']}:{i} {argv!r}")
        try:
            got = run_subprocess(text, argv, channel)
        except subprocess.TimeoutExpired:
            res["inconclusive"] += 1
            continue
        res["evaluations"] += 1
        obs["subprocess_runs"] += 1
        judge(kind, text, label, argv, channel, got, "subprocess")
        # cross-check the in-process leg on the shared sample
        got2 = run_inprocess(text, argv, channel)
        obs["cross_checked"] += 1
        same_status = (got2[1] == got[1]) or (got[1] not in (0, 1) and got2[1] not in (0, None))
        if got2[0] != got[0] or not same_status:
            B.record(res, {"effect": "inprocess-leg-disagrees-with-subprocess", "command": argv[0]},
                     {"text": text, "argv": argv, "channel": channel},
                     f"SUB={got!r} INPROC={got2!r}")
        if len(res["samples"]) < 2:
            res["samples"].append({"input": text[:160], "argv": argv, "channel": channel,
                                   "stdout": got[0][:160], "status": got[1]})
    for i in range(spec["inprocess"]):
        kind, text = inputs(rng)
        label, argv = commands(rng, text)
        channel = rng.choice(["stdin", "file"])
        wal(f"inp {spec['seed']}:{i} {argv!r}")
        form = "after-command"
        if channel == "file" and rng.random() < 0.3:
            form = rng.choice(["at-end", "before-command"])
        got = run_inprocess(text, argv, channel, form)
        res["evaluations"] += 1
        obs["inprocess_runs"] += 1
        if form != "after-command":
            # another place for `-f FILE`: either a usage error (exit 2, nothing on stdout) or the
            # very result for FILE - never a result for some other input
            B.bump(obs.setdefault("argument_forms", {}), form)
            if got[1] == 2 and got[0] == "":
                B.bump(obs.setdefault("argument_forms", {}), form + ":usage-error")
                continue
        judge(kind, text, label, argv, channel, got, "inprocess" if form == "after-command" else "inprocess:" + form)
    # output faults: stdout that cannot take the text (no space left on the device).  Nothing was
    # delivered, so the exit status must not be 0.
    for i in range(spec.get("faults", 0)):
        if not os.path.exists("/dev/full"):
            break
        g = canon.DocGen(rng, hyphen=False, max_entries=4)
        text = canon.render(g.doc(wrappers=rng.choice(["bare", "formals", "call"]), layers=0))
        argv = rng.choice([["set", "faultKey", "42"], ["test"], ["rm", "absentKey"]])
        if argv[0] == "rm":
            dv = A.decode(text)
            names = [b.path[0] for b in dv.target.bindings if b.kind == "bind" and len(b.path) == 1] if dv.target else []
            if not names:
                continue
            argv = ["rm", M.quote_segment(rng.choice(names))]
        repo = os.environ.get("NIMA_REPO", "/repo")
        env = dict(os.environ, PYTHONPATH=repo, PYTHONDONTWRITEBYTECODE="1")
        try:
            with open("/dev/full", "w") as full:
                cp = subprocess.run([PY, "-m", "nix_manipulator"] + argv, input=text.encode("utf-8"),
                                    stdout=full, stderr=subprocess.PIPE, env=env, timeout=120, cwd=repo)
        except subprocess.TimeoutExpired:
            res["inconclusive"] += 1
            continue
        res["evaluations"] += 1
        B.bump(obs.setdefault("output_fault_runs", {}), argv[0])
        if cp.returncode == 0:
            B.record(res, {"effect": "exit-0-although-output-could-not-be-written", "command": argv[0]},
                     {"text": text, "argv": argv, "channel": "stdin", "stdout": "/dev/full"},
                     f"status 0, stderr={cp.stderr.decode('utf-8', 'replace')[-200:]!r}")
    # redirect-over-file loop
    for i in range(spec["loops"]):
        g = canon.DocGen(rng, hyphen=False, max_entries=4)
        text = canon.render(g.doc(wrappers=rng.choice(["bare", "formals", "lambda", "call"]), layers=0))
        argv = ["set", "loopKey", rng.choice(['"v1"', "42", "true"])]
        cur = text
        obs["loop_runs"] += 1
        for rep in range(5):
            out, status = run_subprocess(cur, argv, "stdin") if rep == 0 else run_inprocess(cur, argv, "stdin")
            res["evaluations"] += 1
            if status != 0:
                break
            if len(out) - len(out.rstrip("\n")) != len(text) - len(text.rstrip("\n")):
                B.record(res, {"effect": "newline-count-changed-in-redirect-loop", "iteration": str(rep)},
                         {"text": text, "argv": argv}, f"OUT={out!r}")
                break
            cur = out
        else:
            t_out, t_status = run_inprocess(cur, ["test"], "stdin")
            if (t_out, t_status) != ("OK\n", 0):
                B.record(res, {"effect": "test-rejects-redirected-output"},
                         {"text": text, "argv": argv, "final": cur}, f"TEST={t_out!r}/{t_status}")
    res["nontrivial"] = sorted(nontriv)
    return res


def replay(case):
    text, argv, channel = case["text"], case["argv"], case.get("channel", "stdin")
    exp = model(text, argv)
    got = run_subprocess(text, argv, channel)
    ok_status = (got[1] != 0) if exp[1] == "nonzero" else (got[1] == exp[1])
    if got[0] != exp[0] or not ok_status:
        return [{"key": {"effect": "stdout-differs" if got[0] != exp[0] else "exit-status-differs"},
                 "detail": f"EXPECTED={exp!r} GOT={got!r}"}]
    return []
