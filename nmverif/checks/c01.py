"""C01 - a parse/rebuild round trip never changes what the program means."""

from nmverif.checks import _rtbase
from nmverif.oracle import roundtrip as R

PROPERTY = "C01"
LEVEL = "exploration"
SHARD_TIMEOUT = 900
FLOORS = {"nontrivial": 3000, "observed": {"layers.grid": 30000, "layers.random": 5000}}
RULE = ("G-grid (construct template x gap x trivia class x context, enumerated completely) + "
        "adjacency sub-grid + seeded G-nix programs over the whole expression grammar with one "
        "trivia class per gap; a case is non-trivial when the library took the structural path "
        "(no pass-through, no refusal) and distinct by content hash of the input text")
ASSUMPTIONS = [
    "oracle tokenizer = tree-sitter-nix 0.1.0 (own Parser instance); its grammar is the trusted notion of 'valid Nix'",
    "only the three normalisations named in the property are applied (integer value, empty let-in, formals trailing comma)",
    "generator self-check: every generated text parses without error and has the intended token sequence",
]


def judge(ob, rin, rout):
    return R.judge_tokens(ob, rin, rout)


def nontrivial(rin, ob):
    return ob.out is not None and not ob.passthrough


def plan(tier, seed):
    return _rtbase.standard_plan(tier, seed, modes=["hostile", "hostile", "line-comments", "canonical-ish"],
                                 n_random_quick=20000, n_random_thorough=600000)


def run_shard(spec):
    return _rtbase.run(spec, judge, passes=1, nontrivial=nontrivial)


def finalize(merged, tier):
    merged["extra_coverage"] = {"exhaustive_grid": True}


def replay(case):
    return _rtbase.replay_case(case, judge, 1)
