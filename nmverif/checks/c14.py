"""C14 - the mapping API obeys dictionary laws and the rebuilt text always agrees with it."""

import copy
import random

from nmverif.checks import _editbase as B
from nmverif.gen import canon
from nmverif.oracle import attrtree as A
from nmverif.oracle import cst, editjudge as J
from nmverif.worker import wal

PROPERTY = "C14"
LEVEL = "exploration"
SHARD_TIMEOUT = 900
FLOORS = {"nontrivial": 2000, "observed": {"ops.set": 800, "ops.del": 400, "ops.get": 800,
                                           "targets": 3}}
RULE = ("documents (plain, attrpath-derived, nested, scoped with 0-3 let layers, wrapped in lambda "
        "/ with / assert / call) x histories of 5-40 item get / set / delete on the document "
        "mapping, on nested sets reached through it and on the target set's scope mapping (plus a "
        "leg for documents whose target is reached through a let-bound name, with re-binding of "
        "that name through the scope mapping); keys: "
        "existing, fresh, attrpath roots, dotted (read only), missing; values: ints, strings, "
        "booleans, None, dicts; after every operation: the dictionary law of that operation "
        "(lookup after set, KeyError after delete, KeyError without side effect for a missing key, "
        "assignment into a non-mapping raises) and agreement of three views: mapping lookups, the "
        "attribute tree decoded from rebuild() by an independent CST reader, and the plain-dict "
        "model; non-trivial = an operation after which the three views were compared; distinct by "
        "(text before, op) hash")
ASSUMPTIONS = [
    "inherited names are bystanders (deleting an inherited name is outside the stated laws)",
    "dotted keys are used for lookups only; values are compared by decoded token sequences",
]

FRESH = ["nk", "fresh", "zz", "q", "added"]


def py_value(rng):
    k = rng.random()
    if k < 0.35:
        return rng.randrange(0, 1000)
    if k < 0.6:
        return rng.choice(["s", "1.2.3", "a b", ""])
    if k < 0.75:
        return rng.choice([True, False])
    if k < 0.82:
        return None
    return {rng.choice(["ia", "ib"]): rng.randrange(10), "ic": rng.choice(["t", 3])}


def value_plain(v):
    """Expected plain tree of a Python value (via the oracle's own rendering + decoding)."""
    def lit(x):
        if isinstance(x, bool):
            return "true" if x else "false"
        if x is None:
            return "null"
        if isinstance(x, int):
            return str(x)
        if isinstance(x, str):
            return '"' + x.replace("\\", "\\\\").replace('"', '\\"') + '"'
        if isinstance(x, dict):
            return "{ " + " ".join(f"{k} = {lit(w)};" for k, w in x.items()) + " }"
        raise TypeError(x)
    vt = J.value_tokens(lit(v))
    if isinstance(vt, A.TNode):
        return A.to_plain(vt)
    return ("leaf", vt)


def get_path(plain, path):
    cur = plain
    for p in path:
        if not isinstance(cur, dict) or p not in cur:
            return None
        cur = cur[p]
    return cur


def sorted_plain(x):
    if isinstance(x, dict):
        return tuple(sorted((k, sorted_plain(v)) for k, v in x.items()))
    return x


def make_doc(rng):
    g = canon.DocGen(rng, hyphen=False, comments=rng.random() < 0.4, max_entries=5, quoted=False)
    shape = rng.choice(["bare", "bare", "bare", "formals", "lambda", "with", "assert", "call", "formals+call"])
    d = g.doc(wrappers=shape, layers=rng.choice([0, 0, 1, 2, 3]) if shape == "bare" else rng.choice([0, 0, 1]))
    if rng.random() < 0.08:
        # dotted bindings that share a prefix of three and more segments
        root = rng.choice(["deep", "svc"])
        for lf in rng.sample(["x", "y", "z", "w"], rng.choice([2, 3])):
            d.target.entries.append(canon.Entry("attrpath", [root, "b", "c", lf], value=g.value()))
        if rng.random() < 0.5:
            d.target.entries.append(canon.Entry("attrpath", [root, "b", "d", "e", "f"], value=g.value()))
            d.target.entries.append(canon.Entry("attrpath", [root, "b", "d", "e", "g"], value=g.value()))
    return canon.render(d)


def plan(tier, seed):
    n_shards = 16 if tier == "quick" else 64
    specs = [{"seed": seed * 6311 + i * 141650939 + 47, "docs": 140 if tier == "quick" else 1500}
             for i in range(n_shards)]
    specs.append({"leg": "exotic-names", "seed": seed * 733 + 11, "docs": 250 if tier == "quick" else 4000})
    for i in range(2 if tier == "quick" else 8):
        specs.append({"leg": "reference-target", "seed": seed * 311 + i * 15487469 + 5,
                      "docs": 400 if tier == "quick" else 4000})
    return specs


def ref_target_view(text, var):
    """Plain tree of the set bound to `var` in the outermost let of `let var = {..}; .. in var`."""
    data, root, err = cst.normalized(text)
    if err:
        return None
    exprs = [c for c in root.children if c.type != "comment"]
    if len(exprs) != 1 or exprs[0].type != "let_expression":
        return None
    for b in A.decode_bindings(exprs[0]):
        if b.kind == "bind" and tuple(b.path) == (var,) and b.sub is not None:
            dups = []
            tree = A.merge(b.sub.bindings, dups)
            return A.to_plain(tree), dups
    return None


MALFORMED_KEYS = ["", " ", "a.", ".a", "a..b", '"x', "${x", "a b", "1a", "a.\"", "\t"]


# binding names as they may be spelled in a file: quoted, with dots / quotes / interpolations
# (also interpolations that contain strings with dots) inside the quotes, dynamic
EXOTIC_NAMES = ['"${f "x.y"}"', '"a.b"', '"x${y}.z"', '${d}', '"${a.b}"', '"q\\"r"', '"with space"',
                '"${g "p.q" "r.s"}"', '"1x"', '"a.${b}.c"', "plain'", '"x-${v}"']


def run_exotic_names_leg(spec, res):
    """One binding per exotic spelling among plain ones; get / set / del through the mapping by
    that very spelling: the value comes back, the text keeps one binding per name, the deleted
    one (and only it) is gone."""
    from nix_manipulator import parse
    rng = random.Random(spec["seed"])
    obs = res["observed"]
    obs.update({"ops": {}, "targets": {}, "key_classes": {}, "laws_checked": 0, "views_compared": 0,
                "exotic_names": {}})
    nontriv = set()
    for di in range(spec["docs"]):
        names = rng.sample(EXOTIC_NAMES, rng.choice([1, 2, 3]))
        lines = [f"  k{i} = {i};" for i in range(rng.choice([0, 1, 3]))]
        for j, nm in enumerate(names):
            lines.insert(rng.randrange(len(lines) + 1), f"  {nm} = {100 + j};")
        wrap = rng.choice(["bare", "let", "nested"])
        body = "{\n" + "\n".join(lines) + "\n}"
        text = {"bare": body + "\n", "let": "let\n  v = 1;\nin\n" + body + "\n",
                "nested": "{\n  m = " + body.replace("\n", "\n  ") + ";\n}\n"}[wrap]
        wal(f"exotic {spec['seed']}:{di}")
        nm = rng.choice(names)
        op = rng.choice(["get", "set", "del"])
        B.bump(obs["exotic_names"], nm)
        B.bump(obs["ops"], op)
        res["evaluations"] += 1
        nontriv.add(B.h64(text + op + nm))
        key = {"target": "exotic-name", "op": op, "wrappers": wrap, "name_class":
               ("interpolation-with-string" if '${' in nm and nm.count('"') > 2 else
                "interpolation" if "${" in nm else "quoted" if nm.startswith('"') else "bare")}
        case = {"initial": text, "history": [[op, nm]]}
        try:
            src = parse(text)
            m = src["m"] if wrap == "nested" else src
            n_before = text.count(" = ")
            if op == "get":
                v = m[nm]
                got = getattr(v, "value", v)
                if got != 100 + names.index(nm):
                    B.record(res, {**key, "effect": "lookup-returns-another-value"}, case, repr(got))
            elif op == "set":
                m[nm] = 7
                out = src.rebuild()
                if out.count(" = ") != n_before or f"{nm} = 7;" not in out:
                    B.record(res, {**key, "effect": "text-disagrees-with-mapping"}, case, out[:400])
                else:
                    back = m[nm]
                    if getattr(back, "value", back) != 7:
                        B.record(res, {**key, "effect": "lookup-after-set-differs"}, case, repr(back))
            else:
                del m[nm]
                out = src.rebuild()
                if out.count(" = ") != n_before - 1 or f"{nm} = " in out:
                    B.record(res, {**key, "effect": "text-disagrees-with-mapping"}, case, out[:400])
                try:
                    m[nm]
                    B.record(res, {**key, "effect": "lookup-after-del-succeeds"}, case, "")
                except KeyError:
                    pass
            obs["laws_checked"] += 1
        except Exception as exc:  # noqa: BLE001
            B.record(res, {**key, "effect": "raised", "exc": type(exc).__name__}, case, str(exc)[:200])
    res["nontrivial"] = sorted(nontriv)
    return res


def run_reference_leg(spec, res):
    """Documents whose target set is reached through a name: `let x = { .. }; y = ..; in x`.
    Histories mix the document mapping (get / set / del) with re-binding `x` through the scope
    mapping; after every step the document mapping must agree with the text."""
    from nix_manipulator import parse
    rng = random.Random(spec["seed"])
    obs = res["observed"]
    obs.update({"ops": {}, "targets": {}, "key_classes": {}, "laws_checked": 0, "views_compared": 0})
    nontriv = set()
    for di in range(spec["docs"]):
        var = rng.choice(["x", "cfg", "attrs"])
        n = rng.choice([1, 2, 3])
        body = " ".join(f"k{i} = {rng.randrange(100)};" for i in range(n))
        extra = rng.choice(["", "  other = 1;\n"])
        text = f"let\n  {var} = {{ {body} }};\n{extra}in\n{var}\n"
        try:
            src = parse(text)
        except Exception:  # noqa: BLE001
            continue
        hist = []
        for si in range(rng.randrange(3, 12)):
            try:
                before = src.rebuild()
            except Exception as e:  # noqa: BLE001
                B.record(res, {"target": "reference", "effect": "rebuild-raised", "exc": type(e).__name__},
                         {"initial": text, "history": hist}, str(e)[:200])
                break
            k = rng.random()
            key = rng.choice([f"k{rng.randrange(4)}", "fresh" + str(rng.randrange(5))])
            val = rng.randrange(1000, 2000)
            exc = None
            try:
                if k < 0.3:
                    op = ["doc-set", key, val]
                    src[key] = val
                elif k < 0.45:
                    op = ["doc-del", key, None]
                    del src[key]
                elif k < 0.6:
                    op = ["doc-get", key, None]
                    src[key]
                else:
                    newset = {f"r{rng.randrange(3)}": rng.randrange(2000, 3000), f"k{rng.randrange(4)}": rng.randrange(3000, 4000)}
                    op = ["scope-rebind", var, newset]
                    src.expr.scope[var] = newset
            except KeyError as e:
                exc = e
            except Exception as e:  # noqa: BLE001
                exc = e
            hist.append(op)
            res["evaluations"] += 1
            B.bump(obs["ops"], op[0].split("-")[1] if op[0].startswith("doc") else "set")
            B.bump(obs["targets"], "reference")
            B.bump(obs["key_classes"], op[0])
            obs["laws_checked"] += 1
            try:
                after = src.rebuild()
            except Exception as e:  # noqa: BLE001
                B.record(res, {"target": "reference", "op": op[0], "effect": "rebuild-raised-after-op",
                               "exc": type(e).__name__}, {"initial": text, "history": hist}, str(e)[:200])
                break
            view = ref_target_view(after, var)
            if view is None:
                break   # shape left the leg's domain (e.g. the set became something else)
            plain, dups = view
            obs["views_compared"] += 1
            nontriv.add(B.h64(before + repr(op)))
            base = {"target": "reference", "op": op[0], "wrappers": "let", "layers": "1"}
            bad = None
            if dups:
                bad = ("duplicate-definition-in-text", repr(after))
            elif exc is not None and not isinstance(exc, KeyError):
                bad = ("operation-raised", f"{type(exc).__name__}: {exc}")
            else:
                # the document mapping and the text must name the same keys with the same values
                for kk in sorted(set(list(plain.keys()) + [key])):
                    try:
                        got = src[kk]
                        got_text = got.rebuild() if hasattr(got, "rebuild") else repr(got)
                        present = True
                    except KeyError:
                        present = False
                    except Exception as e:  # noqa: BLE001
                        bad = ("lookup-raised", f"{kk}: {type(e).__name__}: {e}")
                        break
                    if present != (kk in plain):
                        bad = ("text-disagrees-with-mapping",
                               f"key {kk}: mapping {'has' if present else 'lacks'} it, text {'has' if kk in plain else 'lacks'} it; AFTER={after!r}")
                        break
                    if present and isinstance(plain[kk], tuple):
                        want = b" ".join(t[1] for t in plain[kk][1]).decode()
                        if got_text.strip() != want:
                            bad = ("text-disagrees-with-mapping", f"key {kk}: mapping {got_text!r} text {want!r}; AFTER={after!r}")
                            break
                if bad is None and op[0] == "doc-set" and exc is None and key not in plain:
                    bad = ("set-not-in-text", repr(after))
                if bad is None and op[0] == "doc-del" and exc is None and key in plain:
                    bad = ("del-still-in-text", repr(after))
            if bad is not None:
                k2 = dict(base)
                k2["effect"] = bad[0]
                B.record(res, k2, {"initial": text, "history": hist}, f"BEFORE={before!r} {bad[1]}"[:1400])
                break
    res["nontrivial"] = sorted(nontriv)
    return res


def run_shard(spec):
    from nix_manipulator import parse
    from nix_manipulator.expressions import AttributeSet
    rng = random.Random(spec["seed"])
    res = B.new_result()
    if spec.get("leg") == "reference-target":
        return run_reference_leg(spec, res)
    if spec.get("leg") == "exotic-names":
        return run_exotic_names_leg(spec, res)
    obs = res["observed"]
    obs.update({"ops": {}, "targets": {}, "key_classes": {}, "laws_checked": 0, "views_compared": 0})
    nontriv = set()

    for di in range(spec["docs"]):
        text = make_doc(rng)
        wal(f"doc {spec['seed']}:{di}")
        try:
            src = parse(text)
        except Exception:  # noqa: BLE001
            continue
        hist = []
        tainted = False
        for si in range(rng.randrange(5, 41)):
            try:
                before = src.rebuild()
            except Exception:  # noqa: BLE001
                break
            dv = A.decode(before)
            if dv.error or dv.target is None:
                break
            tree = A.merge(dv.target.bindings)
            plain = A.to_plain(tree)
            # ---- mixed entry points: now and then the document is edited through nima's own
            # set / rm (scope layers and body) between mapping operations; the mapping laws are
            # then checked on the state this leaves behind
            if rng.random() < 0.07:
                from nix_manipulator.cli.manipulations import remove_value, set_value
                lay = [b.path[0] for l in dv.layers for b in l if b.kind == "bind" and len(b.path) == 1]
                kk = rng.random()
                try:
                    if kk < 0.4:
                        cli = ["set", "@" * rng.choice([1, 1, 2]) + rng.choice(lay + ["c_new" + str(rng.randrange(9))]), "5"]
                        set_value(src, cli[1], cli[2])
                    elif kk < 0.6 and lay:
                        cli = ["rm", "@" * rng.choice([1, 1, 2]) + rng.choice(lay), ""]
                        remove_value(src, cli[1])
                    else:
                        cli = ["set", "c_body" + str(rng.randrange(9)), "[ 1 2 ]"]
                        set_value(src, cli[1], cli[2])
                    B.bump(obs.setdefault("cli_edits_between_mapping_ops", {}), cli[0])
                except Exception:  # noqa: BLE001 - refused edits leave the document as it was (C08's subject)
                    cli.append("refused")
                hist.append(("cli", (), cli[0], cli[1], cli[2]))
                continue
            # ---- choose mapping target
            targets = ["document"]
            nested_paths = [p for p, nd in _sets(tree) if nd.explicit and not nd.via_attrpath and len(p) <= 2]
            if nested_paths:
                targets.append("nested")
            dotted_paths = [p for p, nd in _sets(tree) if nd.via_attrpath and not nd.explicit and len(p) <= 2]
            if dotted_paths:
                targets.append("nested-dotted")
            bare = dv.wrappers in ([], ["let"] * len(dv.wrappers))
            if bare and isinstance(getattr(src, "expr", None), AttributeSet) or (bare and dv.layers):
                targets.append("scope")
            tkind = rng.choice(targets)
            base_path: tuple = ()
            try:
                if tkind == "document":
                    mapping = src
                    view = plain
                elif tkind in ("nested", "nested-dotted"):
                    # nested-dotted: a set that exists only through dotted bindings (`a.b = 1;`)
                    base_path = rng.choice(nested_paths if tkind == "nested" else dotted_paths)
                    mapping = src
                    for seg in base_path:
                        mapping = mapping[seg]
                    view = get_path(plain, base_path)
                else:
                    # (the top expression itself when it is the set: reaching the scope without the
                    # document-level helpers, which re-attach owners on their way)
                    top = src.expr
                    target_set = top if type(top).__name__ == "AttributeSet" and rng.random() < 0.7 \
                        else src._resolve_target_set()
                    mapping = target_set.scope
                    # which let layer does the scope mapping stand for? (the one with its names)
                    names = [getattr(b, "name", None) for b in list(mapping)]
                    names = [n for n in names if isinstance(n, str)]
                    for b in list(mapping):
                        # inherit clauses are entries of the layer too
                        for nm in (getattr(b, "names", None) or []):
                            ident = getattr(nm, "name", None)
                            if not isinstance(ident, str):
                                ident = nm.__dict__.get("value") if hasattr(nm, "__dict__") else None
                            if isinstance(ident, str):
                                names.append(ident)
                    scope_layer = None
                    for li, layer in enumerate(dv.layers):
                        lp = A.to_plain(A.merge(layer))
                        if sorted(lp.keys()) == sorted(set(n.split(".")[0] for n in names)):
                            scope_layer = li
                            break
                    if dv.layers and scope_layer is None and not names:
                        scope_layer = "new-outermost"   # emptied outermost layer: the mapping is empty
                    if dv.layers and scope_layer is None:
                        B.record(res, {"effect": "scope-mapping-matches-no-layer", "layers": str(len(dv.layers))},
                                 {"initial": text, "history": [list(h) for h in hist]}, f"names={names!r} BEFORE={before!r}")
                        break
                    view = (A.to_plain(A.merge(dv.layers[scope_layer]))
                            if dv.layers and scope_layer != "new-outermost" else {})
            except Exception as exc:  # noqa: BLE001
                break
            if not isinstance(view, dict):
                break
            keys_here = [k for k, v in view.items()]
            leaf_keys = [k for k, v in view.items() if not isinstance(v, dict) and not (v[1] and v[1][0][0] == "inherit")]
            root_keys = []
            if tkind != "scope":
                sub = tree
                for seg in base_path:
                    sub = sub.children[seg]
                root_keys = [k for k, nd in sub.children.items() if nd.kind == "set" and nd.via_attrpath]
            elif isinstance(scope_layer, int):
                # dotted bindings in a let layer: `let fam.x = 1; fam.y = 2; in ..`
                lt = A.merge(dv.layers[scope_layer])
                root_keys = [k for k, nd in lt.children.items() if nd.kind == "set" and nd.via_attrpath]
            inherit_keys = [k for k, v in view.items() if not isinstance(v, dict) and v[1] and v[1][0][0] == "inherit"]
            opk = rng.choice(["set", "set", "del", "get", "get", "set-into-leaf"])
            kc = rng.random()
            if kc < 0.45 and leaf_keys:
                key, kclass = rng.choice(leaf_keys), "existing-leaf"
            elif kc < 0.6:
                key, kclass = rng.choice(FRESH) + str(rng.randrange(30)), "fresh"
            elif kc < 0.75 and root_keys:
                key, kclass = rng.choice(root_keys), "attrpath-root"
            elif kc < 0.85 and [k for k in keys_here if isinstance(view[k], dict) and k not in root_keys]:
                key, kclass = rng.choice([k for k in keys_here if isinstance(view[k], dict) and k not in root_keys]), "explicit-set"
            elif rng.random() < 0.3:
                # not bound and not even a well-formed attribute path: still "a missing key"
                key, kclass = rng.choice(MALFORMED_KEYS), "missing"
                opk = rng.choice(["get", "del"])
                B.bump(obs.setdefault("malformed_missing_keys", {}), repr(key))
            else:
                key, kclass = "missing" + str(rng.randrange(30)), "missing"
            if key in inherit_keys:
                continue
            # classify by what the key really is in the current view
            if key in view:
                if key in root_keys:
                    kclass = "attrpath-root"
                elif isinstance(view[key], dict):
                    kclass = "explicit-set"
                else:
                    kclass = "existing-leaf"
            else:
                kclass = "absent"
            if opk == "del" and kclass == "absent":
                opk = "del-missing"
            if opk == "get" and kclass == "absent":
                opk = "get-missing"
            value = py_value(rng)
            hist.append((tkind, base_path, opk, key, repr(value)))
            res["evaluations"] += 1
            B.bump(obs["ops"], opk.split("-")[0])
            B.bump(obs["targets"], tkind)
            B.bump(obs["key_classes"], kclass)
            base = {"target": tkind, "op": opk, "key_class": kclass, "wrappers": "+".join(dv.wrappers) or "bare",
                    "layers": str(min(len(dv.layers), 3)),
                    "after_attrpath_root_op": "yes" if tainted else "no"}
            base["doc_mixed"] = "yes" if A.doc_has_mixed(dv) else "no"
            if kclass == "attrpath-root" and opk in ("set", "del"):
                tainted = True
            case = {"initial": text, "history": [list(h) for h in hist]}
            keys = []

            def fail(effect, detail="", **extra):
                k = dict(base)
                k["effect"] = effect
                k.update(extra)
                keys.append((k, detail))

            exc = None
            got_value = None
            try:
                if opk == "set":
                    mapping[key] = value
                elif opk in ("del", "del-missing"):
                    del mapping[key]
                elif opk in ("get", "get-missing"):
                    got_value = mapping[key]
                elif opk == "set-into-leaf":
                    if not leaf_keys:
                        continue
                    key = rng.choice(leaf_keys)
                    mapping[key]["inner"] = value
            except Exception as e:  # noqa: BLE001
                exc = e
            try:
                after = src.rebuild()
            except Exception as e:  # noqa: BLE001
                fail("rebuild-raised-after-op", f"{type(e).__name__}: {e}")
                after = None
            obs["laws_checked"] += 1
            # ---- expected view
            expected = copy.deepcopy(view)
            if opk == "set":
                if exc is not None:
                    fail("set-raised", f"{type(exc).__name__}: {exc}", exc=type(exc).__name__, msg=J.msg_shape(str(exc)))
                else:
                    expected[key] = value_plain(value)
                    try:
                        back = mapping[key]
                        if hasattr(back, "rebuild"):
                            back_text = back.rebuild()
                            bt = J.value_tokens(back_text)
                            bp = A.to_plain(bt) if isinstance(bt, A.TNode) else ("leaf", bt)
                            if sorted_plain(bp) != sorted_plain(expected[key]):
                                fail("lookup-after-set-differs", f"got {back_text!r}")
                        elif not (type(back) is type(value) and back == value):
                            fail("lookup-after-set-differs", f"got {back!r}")
                    except KeyError:
                        fail("lookup-after-set-keyerror")
                    except Exception as e:  # noqa: BLE001
                        fail("lookup-after-set-raised", f"{type(e).__name__}: {e}")
            elif opk == "del":
                if exc is not None:
                    fail("del-raised", f"{type(exc).__name__}: {exc}", exc=type(exc).__name__, msg=J.msg_shape(str(exc)))
                else:
                    expected.pop(key, None)
                    try:
                        mapping[key]
                        fail("lookup-after-del-succeeds")
                    except KeyError:
                        pass
                    except Exception as e:  # noqa: BLE001
                        fail("lookup-after-del-raised", f"{type(e).__name__}: {e}")
            elif opk in ("del-missing", "get-missing"):
                if not isinstance(exc, KeyError):
                    fail("missing-key-no-keyerror", f"{type(exc).__name__ if exc else 'no exception'}",
                         exc=type(exc).__name__ if exc else "none", msg=J.msg_shape(str(exc)) if exc else "")
            elif opk == "get":
                if exc is not None:
                    fail("get-raised", f"{type(exc).__name__}: {exc}", exc=type(exc).__name__, msg=J.msg_shape(str(exc)))
            elif opk == "set-into-leaf":
                if exc is None:
                    fail("assignment-into-non-mapping-accepted", f"key={key}")
            # ---- three views must agree
            if after is not None:
                dva = A.decode(after)
                if dva.error or dva.target is None:
                    fail("output-syntax-error", repr(after))
                else:
                    dups = []
                    tree_a = A.merge(dva.target.bindings, dups)
                    if tkind == "scope":
                        layers_b = [sorted_plain(A.to_plain(A.merge(l))) for l in dv.layers]
                        layers_a = [sorted_plain(A.to_plain(A.merge(l, dups))) for l in dva.layers]
                        exp_layers = list(layers_b)
                        exp_here = sorted_plain(expected)
                        if dv.layers and scope_layer == "new-outermost":
                            if expected:
                                exp_layers = [exp_here] + exp_layers
                        elif dv.layers:
                            if expected:
                                exp_layers[scope_layer] = exp_here
                            else:
                                del exp_layers[scope_layer]
                        elif expected:
                            exp_layers = [exp_here]
                        view_a = None
                        if layers_a != exp_layers or sorted_plain(A.to_plain(tree_a)) != sorted_plain(plain):
                            unchanged = layers_a == layers_b
                            fail("text-disagrees-with-mapping", f"AFTER={after!r}",
                                 text_unchanged="yes" if unchanged else "no")
                        obs["views_compared"] += 1
                        nontriv.add(B.h64(before + "\0" + repr(hist[-1])))
                        for k, detail in keys:
                            B.record(res, k, case, f"BEFORE={before!r} {detail}"[:1500])
                        if keys:
                            break
                        continue
                    else:
                        view_a = get_path(A.to_plain(tree_a), base_path)
                    obs["views_compared"] += 1
                    nontriv.add(B.h64(before + "\0" + repr(hist[-1])))
                    if dups:
                        fail("duplicate-definition-in-text", repr(after))
                    elif sorted_plain(view_a) != sorted_plain(expected):
                        unchanged = sorted_plain(view_a) == sorted_plain(view)
                        fail("text-disagrees-with-mapping", f"AFTER={after!r}",
                             text_unchanged="yes" if unchanged else "no")
                    elif tkind != "scope" and opk in ("get", "del-missing", "get-missing", "set-into-leaf") and after != before:
                        fail("read-or-refused-op-changed-text", f"AFTER={after!r}")
            for k, detail in keys:
                B.record(res, k, case, f"BEFORE={before!r} {detail}"[:1500])
            if keys:
                break
            if len(res["samples"]) < 2 and res["evaluations"] % 307 == 3:
                res["samples"].append({"text": before[:200], "op": list(hist[-1])})
    res["nontrivial"] = sorted(nontriv)
    return res


def _sets(tree, prefix=()):
    for k, v in tree.children.items():
        if v.kind == "set":
            yield prefix + (k,), v
            yield from _sets(v, prefix + (k,))


def replay(case):
    return []  # histories are replayed by hand from the recorded initial text and operation list
