"""C15 - rebuilding is pure and deterministic, independent of threads and history."""

import hashlib
import json
import os
import random
import subprocess
import sys
import tempfile
import threading
import time

from nmverif.checks import _editbase as B
from nmverif.engines import edit as E
from nmverif.gen import canon, nixgen, trivia
from nmverif.monitor import sysmon
from nmverif.oracle import attrtree as A
from nmverif.worker import wal

PROPERTY = "C15"
LEVEL = "exploration"
SHARD_TIMEOUT = 1200
FLOORS = {"nontrivial": 1000, "observed": {"purity.contract_evaluations": 3000,
                                           "threads.handoffs_at_instrumented_lines": 2000,
                                           "threads.executions": 2000, "configs.runs": 6}}
RULE = ("corpus of G-nix / G-canon texts plus edit and resolve scripts; (i) purity (corpus, the single-gap grid and the multi-gap small-alphabet grid): an icontract "
        "snapshot/ensure contract on NixSourceCode.rebuild (every call) and on every expression "
        "class's rebuild (1 in 8 calls) compares a deep structural snapshot of the tree before and "
        "after, three consecutive rebuilds must agree, and a rebuild that raises (a random node swapped "
        "for one whose rebuild raises) must leave the tree unchanged; (ii) history: the same texts in shuffled "
        "orders interleaved with edits / resolves of other documents give the serial baseline's "
        "results; (iii) schedules: 16 threads (switch interval 1 microsecond, LINE-event yield "
        "injection in the functions that touch shared state) each parse / rebuild / set_value / "
        "resolve / parse_file distinct documents, every result compared with the serial baseline; "
        "(iv) configurations: subprocesses with PYTHONHASHSEED in {0,1,12345,random} x three "
        "working directories must produce the same digests; non-trivial = a text taking the "
        "structural path; distinct by content hash")
ASSUMPTIONS = [
    "the snapshot compares structure (layout sentinels by kind, tree-sitter Node handles ignored, resolution contexts live outside the tree)",
    "interleavings are sampled, not enumerated; the evidence reports the hand-offs observed at instrumented lines",
]

SHARED_STATE_FUNCS = {"source_bytes_context", "from_cst", "_get_parser", "parse", "parse_file", "parse_to_ast",
                      "source_path_context", "_store_context", "_get_context", "scopes_for_owner",
                      "value", "_gap_span", "set_resolution_context", "attach_resolution_context"}


def corpus(rng, n):
    out = []
    for i in range(n):
        if i % 25 == 7:
            out.append(rng.choice(["{ a = 1; b = 2; }\n", "{ a.x = 0; b = 1; }\n", "f { a = 1; }\n",
                                   "{ m = { p = 1; q = 2; }; }\n"]))
        elif i % 3 == 0:
            g = canon.DocGen(rng, hyphen=False, max_entries=6)
            out.append(canon.render(g.doc()))
        else:
            toks, glue = nixgen.generate(rng, max_depth=rng.choice([2, 3, 4]), budget=rng.choice([20, 60]), rare=False)
            r = trivia.choose_and_render(toks, glue, rng, rng.choice(["line-comments", "hostile"]), density=0.15)
            if r is not None:
                out.append(r.text.lstrip(" \t\r\n"))
    return out


RESOLVE_DOCS = [
    ("let\n  a = b;\n  b = {v};\nin\n{{\n  foo = a;\n}}\n", "foo"),
    ("rec {{\n  x = y;\n  y = {v};\n}}\n", "x"),
    ("let\n  p = {{ q = {v}; }};\nin\n{{\n  inherit (p) q;\n  r = q;\n}}\n", "r"),
]


def constructed_value(rng):
    """A value made with the constructors / plain Python data, not by the parser."""
    from nix_manipulator.expressions.binding import Binding
    from nix_manipulator.expressions.function.call import FunctionCall
    from nix_manipulator.expressions.identifier import Identifier
    from nix_manipulator.expressions.list import NixList
    from nix_manipulator.expressions.primitive import Primitive
    from nix_manipulator.expressions.set import AttributeSet
    from nix_manipulator.expressions.with_statement import WithStatement

    def lst():
        return NixList(value=[Identifier(name=n) for n in rng.sample(["a", "b", "c", "d"], rng.choice([0, 1, 2, 3]))])
    k = rng.randrange(10)
    if k == 9:
        # a value that brings an end-of-line comment with it (forces a one-line set onto lines)
        from nix_manipulator.expressions.comment import Comment
        return Primitive(value=7, after=[Comment(text="built", inline=True)])
    if k == 0:
        return [1, 2, 3][: rng.choice([0, 1, 3])]
    if k == 1:
        return {"x": 1, "y": [1, [2]]}
    if k == 2:
        return lst()
    if k == 3:
        return WithStatement(environment=Identifier(name="pkgs"), body=lst())
    if k == 4:
        return FunctionCall(name="f", argument=lst())
    if k == 5:
        return NixList(value=[lst(), lst()])
    if k == 6:
        return AttributeSet(values=[Binding(name="k", value=lst())])
    if k == 7:
        return NixList(value=[Primitive(value=1), AttributeSet(values=[])])
    return Primitive(value="s")


def inject_rebuild_fault(rng, doc):
    """Pick a random expression node below the document (a binding value, a list element, an
    operand ...) and return (get, set, original, poison): poison.rebuild raises."""
    import dataclasses
    from nix_manipulator.expressions.expression import NixExpression

    class Poison(NixExpression):
        def rebuild(self, indent: int = 0, inline: bool = False, **kw):  # noqa: ARG002
            raise ValueError("injected rebuild fault")

        def has_scope(self):
            return False

    slots = []
    seen = set()

    def walk(obj, depth=0):
        if id(obj) in seen or depth > 60:
            return
        seen.add(id(obj))
        if dataclasses.is_dataclass(obj) and not isinstance(obj, type):
            for f in dataclasses.fields(obj):
                if f.name in ("before", "after", "scope", "scope_state", "node"):
                    continue
                try:
                    val = getattr(obj, f.name)
                except AttributeError:
                    continue
                if isinstance(val, NixExpression):
                    slots.append((obj, f.name, None))
                    walk(val, depth + 1)
                elif isinstance(val, list):
                    for i, item in enumerate(val):
                        if isinstance(item, NixExpression):
                            slots.append((obj, f.name, i))
                            walk(item, depth + 1)
                        elif dataclasses.is_dataclass(item):
                            walk(item, depth + 1)
    for e in doc.expressions:
        walk(e)
    if not slots:
        return None
    owner, name, idx = rng.choice(slots)
    if idx is None:
        original = getattr(owner, name)

        def setter(v):
            setattr(owner, name, v)
    else:
        lst = getattr(owner, name)
        original = lst[idx]

        def setter(v):
            lst[idx] = v
    try:
        poison = Poison()
    except Exception:  # noqa: BLE001
        return None
    return (lambda: None), setter, original, poison


def job(kind, text, extra=None):
    """One unit of work -> deterministic digest string (exceptions are results too)."""
    from nix_manipulator import parse, parse_file
    from nix_manipulator.cli.manipulations import set_value
    try:
        if kind == "roundtrip":
            from nmverif.monitor.snapshot import snapshot
            d = parse(text)
            # the parsed tree itself is part of the result (e.g. the file a path literal belongs to)
            tree = hashlib.sha1(repr(snapshot(d.expressions)).encode()).hexdigest()[:16]
            a = d.rebuild()
            b = d.rebuild()
            return "rt:" + tree + ":" + hashlib.sha1((a + "\0" + b).encode()).hexdigest()
        if kind == "file-fault":
            # a parse_file that raises half way (valid syntax, refused by the mapper)
            try:
                parse_file(extra)
                return "ff:accepted"
            except Exception as exc:  # noqa: BLE001
                return f"ff:{type(exc).__name__}"
        if kind == "edit":
            out = set_value(parse(text), extra[0], extra[1])
            return "ed:" + hashlib.sha1(out.encode()).hexdigest()
        if kind == "resolve":
            d = parse(text)
            v = d.expr[extra].value
            return "rs:" + v.rebuild()
        if kind == "file":
            from nmverif.monitor.snapshot import snapshot
            d = parse_file(extra)
            tree = hashlib.sha1(repr(snapshot(d.expressions)).encode()).hexdigest()[:16]
            return "pf:" + tree + ":" + hashlib.sha1(d.rebuild().encode()).hexdigest()
    except Exception as exc:  # noqa: BLE001
        return f"exc:{type(exc).__name__}"
    return "?"


def plan(tier, seed):
    specs = [{"kind": "purity", "seed": seed * 31 + i * 1299709 + 59, "n": 350 if tier == "quick" else 4000}
             for i in range(6 if tier == "quick" else 16)]
    gparts = 8 if tier == "quick" else 16
    specs += [{"kind": "purity-grid", "part": p, "parts": gparts, "stride": 3 if tier == "quick" else 1}
              for p in range(gparts)]
    specs += [{"kind": "history", "seed": seed * 37 + i * 15487469 + 61, "n": 300 if tier == "quick" else 2000}
              for i in range(3 if tier == "quick" else 8)]
    specs += [{"kind": "threads", "seed": seed * 41 + i * 32452867 + 67, "rounds": 4 if tier == "quick" else 60,
               "threads": 16} for i in range(5 if tier == "quick" else 14)]
    specs += [{"kind": "configs", "seed": seed * 43 + 71, "n": 150 if tier == "quick" else 1500}]
    return specs


def run_shard(spec):
    rng = random.Random(spec.get("seed", 0))
    res = B.new_result()
    obs = res["observed"]
    nontriv = set()
    kind = spec["kind"]
    if kind == "purity":
        from nmverif.monitor.contracts import PurityMonitor
        from nix_manipulator import parse
        mon = PurityMonitor().install()
        obs["purity"] = {"contract_evaluations": 0, "document_level": 0, "rebuilds": 0,
                         "contracts_installed": len(mon.installed)}
        texts = corpus(rng, spec["n"])
        for i, text in enumerate(texts):
            wal(f"purity {spec['seed']}:{i}")
            res["evaluations"] += 1
            before_v = len(mon.violations)
            try:
                d = parse(text)
                if rng.random() < 0.3:
                    dv = A.decode(text)
                    if dv.target is not None:
                        ops = E.choose_ops(rng, dv, 1, failing=0.0)
                        if ops:
                            from nix_manipulator.cli.manipulations import remove_value, set_value
                            try:
                                (set_value(d, ops[0].npath, ops[0].value) if ops[0].kind == "set"
                                 else remove_value(d, ops[0].npath))
                            except Exception:  # noqa: BLE001
                                pass
                # nodes built through the API ("choose the layout automatically") placed in the
                # document: rendering must not write its decisions back into them
                if "\n" not in text.strip() and not d.contains_error:
                    # a document written on one line: a binding that ends in a `#` comment forces it
                    # onto several lines - a decision rebuild has to take without writing it down
                    try:
                        from nix_manipulator.expressions.comment import Comment
                        from nix_manipulator.expressions.primitive import Primitive
                        d["builtc"] = Primitive(value=7, after=[Comment(text="built", inline=True)])
                        obs["purity"]["one_line_with_comment"] = obs["purity"].get("one_line_with_comment", 0) + 1
                    except Exception:  # noqa: BLE001
                        pass
                elif rng.random() < 0.3 and not d.contains_error:
                    try:
                        for _ in range(rng.choice([1, 2])):
                            d["built" + str(rng.randrange(9))] = constructed_value(rng)
                        obs["purity"]["constructed_values"] = obs["purity"].get("constructed_values", 0) + 1
                    except Exception:  # noqa: BLE001 - documents without a target set
                        pass
                outs = [d.rebuild() for _ in range(3)]
            except Exception:  # noqa: BLE001
                continue
            obs["purity"]["rebuilds"] += 3
            if not d.contains_error:
                nontriv.add(B.h64(text))
            # fault point: one node of the tree is swapped for a node whose rebuild raises; the
            # failed rebuild must leave every other field of the tree as it was, and after the
            # node is put back the document must render as before
            # (several fault points per document when it carries comments: trivia that a failed
            # rebuild may leave detached is what there is to lose)
            rounds = 0
            if not d.contains_error and len(set(outs)) == 1 and rng.random() < 0.5:
                rounds = 4 if ("#" in text or "/*" in text) else 1
            n_wit = len(res["witnesses"])
            for _round in range(rounds):
                if len(res["witnesses"]) != n_wit:
                    break   # the document may be damaged: later rounds would only repeat it
                fault = inject_rebuild_fault(rng, d)
                if fault is not None:
                    from nmverif.monitor.snapshot import snapshot
                    slot_get, slot_set, original, poison = fault
                    slot_set(poison)
                    snap_before = snapshot(d.expressions)
                    raised = False
                    try:
                        d.rebuild()
                    except Exception:  # noqa: BLE001
                        raised = True
                    obs["purity"]["faulted_rebuilds"] = obs["purity"].get("faulted_rebuilds", 0) + 1
                    if raised:
                        obs["purity"]["faulted_rebuilds_raised"] = obs["purity"].get("faulted_rebuilds_raised", 0) + 1
                        if snapshot(d.expressions) != snap_before:
                            B.record(res, {"effect": "failed-rebuild-mutated-tree", "poisoned": type(original).__name__},
                                     {"text": text}, "deep snapshot differs after a rebuild() that raised")
                    # the same fault while saving: the file on disk must keep its content
                    if raised and rng.random() < 0.3:
                        fd, tmp_path = tempfile.mkstemp(suffix=".nix", prefix="nmverif-c15s-")
                        try:
                            with os.fdopen(fd, "w", encoding="utf-8", newline="") as fh:
                                fh.write(text)
                            try:
                                d.save(tmp_path)
                            except Exception:  # noqa: BLE001
                                pass
                            with open(tmp_path, encoding="utf-8", newline="") as fh:
                                on_disk = fh.read()
                            obs["purity"]["faulted_saves"] = obs["purity"].get("faulted_saves", 0) + 1
                            if on_disk != text:
                                B.record(res, {"effect": "failed-save-damaged-the-file",
                                               "left": "empty" if on_disk == "" else "partial"},
                                         {"text": text}, f"file holds {on_disk[:120]!r} after save() raised")
                        finally:
                            os.unlink(tmp_path)
                    slot_set(original)
                    try:
                        again = d.rebuild()
                        if raised and again != outs[0]:
                            B.record(res, {"effect": "document-differs-after-failed-rebuild",
                                           "poisoned": type(original).__name__},
                                     {"text": text}, f"{outs[0]!r} vs {again!r}"[:1200])
                    except Exception as exc:  # noqa: BLE001
                        B.record(res, {"effect": "rebuild-raises-after-fault-removed", "exc": type(exc).__name__},
                                 {"text": text}, str(exc)[:200])
            if len(set(outs)) != 1:
                B.record(res, {"effect": "repeated-rebuild-differs"}, {"text": text},
                         f"{outs[0]!r} vs {outs[1]!r} vs {outs[2]!r}"[:1500])
            for v in mon.violations[before_v:]:
                B.record(res, {"effect": "rebuild-mutated-tree", "cls": v["cls"], "level": v["level"]},
                         {"text": text}, "deep snapshot differs after rebuild()")
        obs["purity"]["contract_evaluations"] = mon.evaluations
        obs["purity"]["document_level"] = mon.top_evaluations
        res["samples"] = [{"text": t[:200]} for t in texts[:2]]
    elif kind == "purity-grid":
        from nmverif.engines import rt
        from nmverif.monitor.contracts import PurityMonitor
        from nix_manipulator import parse
        mon = PurityMonitor(sample_every=4).install()
        obs["purity"] = {"contract_evaluations": 0, "document_level": 0, "rebuilds": 0, "grid_cells": 0}
        n = 0
        import itertools
        for case in itertools.chain(rt.grid_items(spec["part"], spec["parts"]),
                                    rt.multi_items(spec["part"], spec["parts"])):
            n += 1
            if case.text is None or n % spec["stride"]:
                continue
            wal(case.id)
            res["evaluations"] += 1
            obs["purity"]["grid_cells"] += 1
            before_v = len(mon.violations)
            try:
                d = parse(case.text)
                outs = [d.rebuild() for _ in range(3)]
            except Exception:  # noqa: BLE001
                continue
            obs["purity"]["rebuilds"] += 3
            nontriv.add(B.h64(case.text))
            if len(set(outs)) != 1:
                B.record(res, {"effect": "repeated-rebuild-differs", "tpl": case.meta.get("tpl", "?")},
                         {"text": case.text}, f"{outs[0]!r} vs {outs[1]!r} vs {outs[2]!r}"[:1500])
            for v in mon.violations[before_v:]:
                B.record(res, {"effect": "rebuild-mutated-tree", "cls": v["cls"], "level": v["level"]},
                         {"text": case.text}, "deep snapshot differs after rebuild()")
        obs["purity"]["contract_evaluations"] = mon.evaluations
        obs["purity"]["document_level"] = mon.top_evaluations
        res["samples"] = [{"grid_part": spec["part"], "cells": obs["purity"]["grid_cells"]}]
    elif kind == "history":
        obs["history"] = {"orders": 0, "jobs": 0}
        texts = corpus(rng, spec["n"])
        jobs = [("roundtrip", t, None) for t in texts]
        for j, (tpl, key) in enumerate(RESOLVE_DOCS):
            for v in range(5):
                jobs.append(("resolve", tpl.format(v=1000 + j * 10 + v), key))
        for t in texts[:60]:
            dv = A.decode(t)
            if dv.target is not None:
                jobs.append(("edit", t, ("zz9", "42")))
        # fault points: files whose parse raises after the per-file context has been entered
        scratch = tempfile.mkdtemp(prefix="nmverif-c15h-")
        for fi, bad in enumerate(["{ a.b = 1; a.b = 2; }\n", "{ x = a:b; }\n", "{ inherit ${a}; }\n"]):
            pth = os.path.join(scratch, f"sub{fi}", "bad.nix")
            os.makedirs(os.path.dirname(pth), exist_ok=True)
            with open(pth, "w") as fh:
                fh.write(bad)
            jobs.append(("file-fault", bad, pth))
        jobs += [("roundtrip", t, None) for t in ["{ p = ./rel/path.nix; q = ../up.nix; }\n", "import ./x.nix\n",
                                                 "[ ./a ./b/c.nix ]\n"]]
        baseline = [job(*j) for j in jobs]
        for order in range(5):
            idx = list(range(len(jobs)))
            rng.shuffle(idx)
            obs["history"]["orders"] += 1
            for i in idx:
                wal(f"history {spec['seed']}:{order}:{i}")
                res["evaluations"] += 1
                obs["history"]["jobs"] += 1
                got = job(*jobs[i])
                if got != baseline[i]:
                    B.record(res, {"effect": "result-depends-on-history", "job": jobs[i][0]},
                             {"text": jobs[i][1], "order": order}, f"{baseline[i]} vs {got}")
                elif jobs[i][0] == "roundtrip" and not got.startswith("exc"):
                    nontriv.add(B.h64(jobs[i][1]))
        res["samples"] = [{"job": j[0], "text": j[1][:160]} for j in jobs[:2]]
        import shutil
        shutil.rmtree(scratch, ignore_errors=True)
    elif kind == "threads":
        import nix_manipulator.mapping  # noqa: F401
        import nix_manipulator.cli.manipulations  # noqa: F401
        obs["threads"] = {"executions": 0, "handoffs_at_instrumented_lines": 0, "lines_seen": 0,
                          "yields_injected": 0, "overlap_pairs": 0, "rounds": 0, "instrumented_functions": 0}
        scratch = tempfile.mkdtemp(prefix="nmverif-c15-")
        try:
            texts = corpus(rng, 120)
            jobs = [("roundtrip", t, None) for t in texts]
            for j, (tpl, key) in enumerate(RESOLVE_DOCS):
                for v in range(12):
                    jobs.append(("resolve", tpl.format(v=5000 + j * 100 + v), key))
            for t in texts[:40]:
                if A.decode(t).target is not None:
                    jobs.append(("edit", t, ("thr" + str(len(jobs)), "77")))
            for i, t in enumerate(texts[:30]):
                p = os.path.join(scratch, f"f{i}.nix")
                with open(p, "w") as fh:
                    fh.write(t)
                jobs.append(("file", t, p))
            baseline = [job(*j) for j in jobs]
            codes = sysmon.code_objects_named(SHARED_STATE_FUNCS)
            obs["threads"]["instrumented_functions"] = len(codes)
            old_interval = sys.getswitchinterval()
            sys.setswitchinterval(1e-6)
            try:
                for rnd in range(spec["rounds"]):
                    wal(f"threads {spec['seed']}:{rnd}")
                    results = [None] * len(jobs)
                    order = list(range(len(jobs)))
                    rng.shuffle(order)
                    nthreads = spec["threads"]
                    chunks = [order[i::nthreads] for i in range(nthreads)]
                    start = threading.Barrier(nthreads)

                    def work(chunk):
                        start.wait()
                        for i in chunk:
                            results[i] = job(*jobs[i])

                    with sysmon.YieldInjector(codes, p=0.2, seed=spec["seed"] * 1000 + rnd) as inj:
                        ths = [threading.Thread(target=work, args=(c,)) for c in chunks]
                        for t in ths:
                            t.start()
                        for t in ths:
                            t.join(timeout=300)
                    obs["threads"]["rounds"] += 1
                    obs["threads"]["handoffs_at_instrumented_lines"] += inj.handoffs
                    obs["threads"]["lines_seen"] += inj.lines
                    obs["threads"]["yields_injected"] += inj.yields
                    obs["threads"]["overlap_pairs"] = max(obs["threads"]["overlap_pairs"], len(inj.overlap_pairs))
                    for i, got in enumerate(results):
                        res["evaluations"] += 1
                        obs["threads"]["executions"] += 1
                        if got is None:
                            res["inconclusive"] += 1
                        elif got != baseline[i]:
                            B.record(res, {"effect": "result-differs-under-threads", "job": jobs[i][0]},
                                     {"text": jobs[i][1], "round": rnd}, f"serial {baseline[i]} vs threaded {got}")
                        elif jobs[i][0] == "roundtrip" and not got.startswith("exc"):
                            nontriv.add(B.h64(jobs[i][1]))
            finally:
                sys.setswitchinterval(old_interval)
        finally:
            import shutil
            shutil.rmtree(scratch, ignore_errors=True)
        res["samples"] = [{"job": j[0], "text": j[1][:120]} for j in jobs[:2]]
    elif kind == "configs":
        obs["configs"] = {"runs": 0, "digests": {}}
        texts = corpus(rng, spec["n"])
        fd, path = tempfile.mkstemp(suffix=".json", prefix="nmverif-c15-")
        with os.fdopen(fd, "w") as fh:
            json.dump(texts, fh)
        repo = os.environ.get("NIMA_REPO", "/repo")
        code = (
            "import sys, json, hashlib\n"
            "sys.path.insert(0, sys.argv[1])\n"
            "from nix_manipulator import parse\n"
            "from nix_manipulator.cli.manipulations import set_value\n"
            "h = hashlib.sha1()\n"
            "for t in json.load(open(sys.argv[2])):\n"
            "    try:\n"
            "        d = parse(t); h.update(d.rebuild().encode()); h.update(d.rebuild().encode())\n"
            "        try: h.update(set_value(parse(t), 'cfgkey', '1').encode())\n"
            "        except Exception as e: h.update(type(e).__name__.encode())\n"
            "    except Exception as e:\n"
            "        h.update(type(e).__name__.encode())\n"
            "print(h.hexdigest())\n")
        try:
            digests = {}
            for hs in ["0", "1", "12345", "random"]:
                for cwd in ["/", tempfile.gettempdir(), repo]:
                    env = dict(os.environ)
                    env["PYTHONHASHSEED"] = hs
                    env["PYTHONDONTWRITEBYTECODE"] = "1"
                    cp = subprocess.run([sys.executable, "-c", code, repo, path], capture_output=True,
                                        env=env, cwd=cwd, timeout=600)
                    res["evaluations"] += 1
                    obs["configs"]["runs"] += 1
                    digests[f"hashseed={hs},cwd={cwd}"] = cp.stdout.decode().strip() or f"rc={cp.returncode}"
            obs["configs"]["digests"] = {k: 1 for k in set(digests.values())}
            if len(set(digests.values())) != 1:
                B.record(res, {"effect": "result-depends-on-configuration"}, {"digests": digests},
                         json.dumps(digests)[:1200])
            for t in texts:
                nontriv.add(B.h64(t))
        finally:
            os.unlink(path)
        res["samples"] = [{"configs": list(digests.keys())[:3]}]
    res["nontrivial"] = sorted(nontriv)
    return res


def replay(case):
    return []  # schedule-dependent; the witness records the job and its text
