"""C10 - identifier resolution follows Nix lexical scoping or fails explicitly."""

import gc
import random
import re
import time

from nmverif.checks import _editbase as B
from nmverif.gen import scoping as S
from nmverif.monitor.sysmon import FunctionCoverage, StepCounter
from nmverif.oracle import cst
from nmverif.worker import wal, wal_text

PROPERTY = "C10"
LEVEL = "exploration"
SHARD_TIMEOUT = 900
FLOORS = {"nontrivial": 10000,
          "observed": {"expected": 4, "lexical": 3, "via": 3, "legs": 3}}
RULE = ("G-scope: programs rendered from an abstract scope tree (0-4 let / with wrappers around a "
        "plain or rec set, nested sets to depth 4 each with their own wrappers, with environments "
        "given literally or by a let-bound name, inherit and inherit (src) in lets and sets, the "
        "same five names bound at several levels or nowhere, reference chains and cycles) where "
        "every integer literal is unique in the process; leg doc: every reference and inherited "
        "key is reached by source[k1][k2].. and resolved with Identifier.value on one live "
        "document (all queries in random order, then again: the answer must not depend on what "
        "was resolved before), on a fresh parse, and again after bindings were added / deleted through "
        "the mapping API; leg call: a directly applied function "
        "({ formals with defaults }: body) arg, with the argument literal or let-bound, driven "
        "through scopes_for_owner(call) as tests/test_references.py does; leg history: a pool of "
        "live documents created, resolved and discarded in random order with gc, probing fresh "
        "identifiers at reused addresses; the answer is compared with a reference resolver for "
        "Nix scoping (unique integer or ResolutionError), activations of _resolve_identifier are "
        "counted per query against a bound linear in the number of bindings; non-trivial = a "
        "query whose name is bound at two or more levels, or lexically and by a with; distinct "
        "by (program text, path)")
ASSUMPTIONS = [
    "Nix scoping as implemented by gen/scoping.py (lexical let/rec/formals first, innermost first; with environments innermost first only when no lexical binding; let, rec and formal defaults are recursive; plain sets, with environments and inherit sources are not; inherit takes the name from outside its own set)",
    "a query result is identified by the set of process-unique integer literals in resolved.rebuild()",
    "function bodies are only reachable through the internal helpers the repository's own tests use (scopes_for_owner / set_resolution_context)",
]

ID_RE = re.compile(r"\b[1-9]\d{5,}\b")
STEP_FACTOR = 3
STEP_SLACK = 20


def observe(resolver):
    """Run one resolution at the boundary: -> ('value', ids) | ('ResolutionError', msg) | ('exc', type, msg)."""
    from nix_manipulator.exceptions import ResolutionError
    try:
        v = resolver()
        # a binding value stored through the mapping API may be a plain Python value
        txt = v.rebuild() if hasattr(v, "rebuild") else repr(v)
        return ("value", frozenset(int(x) for x in ID_RE.findall(txt)))
    except ResolutionError as exc:
        return ("ResolutionError", str(exc)[:120])
    except RecursionError as exc:
        return ("exc", "RecursionError", str(exc)[:80])
    except Exception as exc:  # noqa: BLE001
        return ("exc", type(exc).__name__, str(exc)[:120])


def matches(exp, res) -> bool:
    if exp[0] == "value":
        return res == ("value", frozenset([exp[1]]))
    if exp[0] == "set":
        return res[0] == "value" and res[1] == exp[1]
    return res[0] == "ResolutionError"


def doc_resolver(src, path):
    from nix_manipulator.expressions.identifier import Identifier

    def go():
        v = src
        deref = None
        keys = path
        if "->" in path:
            i = path.index("->")
            keys, deref = path[:i], path[i + 1]
        for k in keys:
            v = v[k]
        if isinstance(v, Identifier):
            v = v.value
        if deref is not None:
            v = v[deref]
            if isinstance(v, Identifier):
                v = v.value
        return v
    return go


def call_resolver(src, path):
    from nix_manipulator.expressions.identifier import Identifier
    from nix_manipulator.expressions.parenthesis import Parenthesis
    from nix_manipulator.resolution import scopes_for_owner, set_resolution_context

    def go():
        from nix_manipulator.expressions.function.call import FunctionCall
        call = src.expr
        if not isinstance(call, FunctionCall):
            # the call is the value of `y` in a set that has scopes of its own
            call = src["y"]
        scopes = scopes_for_owner(call)
        fn = call.name
        while isinstance(fn, Parenthesis):
            fn = fn.value
        body = fn.output
        set_resolution_context(body, scopes)
        v = body
        for k in path:
            v = v[k]
        if isinstance(v, Identifier):
            v = v.value
        return v
    return go


def _binding_at(prog, path):
    cur = prog.root
    for k in path[:-1]:
        cur = cur.bindings[k]
    return cur.bindings[path[-1]]


def classify(prog, path, exp, res, all_ids, leg):
    """Mechanism key of a disagreement."""
    feats = S.features(prog, path)
    key = {"leg": leg, "expected": exp[0], "via": feats.get("via", "?"),
           "lexical": feats.get("lexical", "?"),
           "with_inside_lexical": feats.get("with_inside_lexical", "?")}
    try:
        _fr, _v = S.frames_for(prog, path[: path.index("->")] if "->" in path else path)
        if any(f.kind == "with" and f.env_name and "." in f.env_name for f in _fr):
            key["with_select_env"] = "yes"
    except Exception:  # noqa: BLE001
        pass
    if getattr(prog, "alias", None) is not None:
        key["alias_under_with"] = "yes" if any(f.kind == "with" for f in prog.root.wrappers) else "no"
    if res[0] == "exc":
        key["effect"] = "undocumented-exception"
        key["exc"] = res[1]
    elif res[0] == "ResolutionError":
        key["effect"] = "raised-for-a-bound-name"
    else:
        foreign = [i for i in res[1] if i not in all_ids]
        if foreign:
            key["effect"] = "value-from-another-document"
        elif exp[0] in ("unbound", "cycle"):
            key["effect"] = "value-for-an-" + exp[0] + "-name"
        else:
            key["effect"] = "wrong-binding"
    alt = S.expectation(prog, path, "pinned")
    S.CROSSINGS[0] = 0
    S.expectation(prog, path)
    # attributed to the test-pinned deviation when the emulation of it reproduces the answer, or
    # when Nix's own resolution of this query evaluates a non-literal value of a set that is used
    # from outside (the domain of that deviation)
    # A *value* answer inside that domain must be the one the emulation gives (a different value is
    # not that deviation, whatever the domain); a refusal inside the domain cannot be told apart by
    # the emulation (it raises for other reasons than the library) and stays attributed; so does a
    # query that dereferences a set through a name (`r = s1;` then `-> a`), which the emulation
    # does not model (2 of 95657 witnesses of a thorough run differed from it, both of this kind).
    key["explained_by"] = ("set-evaluated-where-used-as-rec"
                           if matches(alt, res)
                           or (S.CROSSINGS[0] > 0 and (key["effect"] == "raised-for-a-bound-name"
                                                       or str(key.get("via", "")).startswith("deref-")))
                           else "none")
    key["crossing"] = "yes" if S.CROSSINGS[0] > 0 else "no"
    key["pinned_match"] = "yes" if matches(alt, res) else "no"
    return key


def plan(tier, seed):
    if tier == "quick":
        shards = [{"leg": "doc", "n": 900} for _ in range(8)] + \
                 [{"leg": "alias", "n": 900} for _ in range(2)] + \
                 [{"leg": "call", "n": 1500} for _ in range(3)] + \
                 [{"leg": "history", "n": 2500} for _ in range(3)]
    else:
        shards = [{"leg": "doc", "n": 6000} for _ in range(36)] + \
                 [{"leg": "alias", "n": 6000} for _ in range(8)] + \
                 [{"leg": "call", "n": 9000} for _ in range(12)] + \
                 [{"leg": "history", "n": 12000} for _ in range(12)]
    for i, s in enumerate(shards):
        s["seed"] = seed * 7919 + i * 104729 + 17
        s["uid_base"] = 100000 + (i + 1) * 1000000
    return shards


def _new_obs(res):
    obs = res["observed"]
    obs.update({"expected": {}, "lexical": {}, "via": {}, "legs": {}, "frames": {}, "depth": {},
                "outcome": {}, "steps_per_binding": {}, "step_checked": 0,
                "explained_by_pinned": 0})
    return obs


def _judge(res, obs, nontriv, prog, path, leg, resolver_factory, src, all_ids, step_codes, label):
    exp = S.expectation(prog, path)
    feats = S.features(prog, path)
    B.bump(obs["expected"], exp[0])
    B.bump(obs["lexical"], feats.get("lexical", "?"))
    B.bump(obs["via"], feats.get("via", "?"))
    B.bump(obs["frames"], feats.get("frames", "call"))
    B.bump(obs["depth"], feats.get("depth", "?"))
    res["evaluations"] += 1
    t0 = time.monotonic()
    with StepCounter(step_codes) as sc:
        got = observe(resolver_factory(src, path))
    dt = time.monotonic() - t0
    B.bump(obs["outcome"], got[0])
    if feats.get("lexical_count", "0") in ("2", "3") or \
            (feats.get("lexical") not in ("none", None) and feats.get("with_candidate") == "yes"):
        nontriv.add(B.h64(prog.text + "/".join(path)))
    case = {"text": prog.text, "path": path, "leg": leg, "mode": label}
    bound = STEP_FACTOR * prog.n_bindings + STEP_SLACK
    obs["step_checked"] += 1
    ratio = sc.count / max(1, prog.n_bindings)
    B.bump(obs["steps_per_binding"], "le0.5" if ratio <= 0.5 else "le1" if ratio <= 1 else "le2" if ratio <= 2
           else "le4" if ratio <= 4 else "gt4")
    if dt > 5.0 and sc.count <= bound:
        # wall clock is not a verdict (a loaded machine stretched a 2-activation resolution to
        # 5.9 s once): counted and shown in the evidence, the step bound alone decides
        obs["wall_clock_over_5s_within_step_bound"] = obs.get("wall_clock_over_5s_within_step_bound", 0) + 1
    if sc.count > bound:
        B.record(res, {"leg": leg, "effect": "resolution-not-bounded", "expected": exp[0]}, case,
                 f"{sc.count} activations of _resolve_identifier for {prog.n_bindings} bindings "
                 f"(bound {bound}), {dt:.2f}s")
        return got
    if not matches(exp, got):
        key = classify(prog, path, exp, got, all_ids, leg)
        if key["explained_by"] != "none":
            obs["explained_by_pinned"] += 1
            B.bump(obs.setdefault("pinned_domain", {}),
                   f"crossing={key['crossing']} emulation_reproduces={key['pinned_match']} {key['effect']}")
        B.record(res, key, case, f"expected {exp!r} got {got!r} ({label})"[:600])
    return got


def _step_codes():
    from nix_manipulator.expressions import identifier as I
    return [I._resolve_identifier.__code__]


def run_docs(spec, res, leg):
    from nix_manipulator import parse
    rng = random.Random(spec["seed"])
    S.reset_uid(spec["uid_base"])
    obs = _new_obs(res)
    nontriv = set()
    codes = _step_codes()
    factory = call_resolver if leg == "call" else doc_resolver
    cov = FunctionCoverage()
    cov.start()
    for i in range(spec["n"]):
        # alias leg: the document body is a name bound to the set in one of its let layers
        prog = S.generate(rng, call=(leg == "call"), alias=(leg == "alias"),
                          select_env=(leg == "doc" and rng.random() < 0.4))
        wal_text(prog.text)
        if cst.has_error(prog.text):
            res["inconclusive"] += 1
            continue
        B.bump(obs["legs"], leg)
        all_ids = frozenset(int(x) for x in ID_RE.findall(prog.text))
        qs = S.queries(prog)
        rng.shuffle(qs)
        try:
            live = parse(prog.text)
        except Exception as exc:  # noqa: BLE001
            B.record(res, {"leg": leg, "effect": "parse-raised", "exc": type(exc).__name__},
                     {"text": prog.text}, str(exc)[:300])
            continue
        first = {}
        n_w = len(res["witnesses"])
        for q in qs:
            first[tuple(q)] = _judge(res, obs, nontriv, prog, q, leg, factory, live, all_ids, codes, "live-first")
        if len(res["witnesses"]) == n_w:
            # second pass on the same object, other order: the answer must not depend on history
            qs2 = list(qs)
            rng.shuffle(qs2)
            for q in qs2:
                got = observe(factory(live, q))
                res["evaluations"] += 1
                if got[0] != first[tuple(q)][0] or (got[0] == "value" and got != first[tuple(q)]):
                    B.record(res, {"leg": leg, "effect": "answer-depends-on-earlier-resolutions"},
                             {"text": prog.text, "path": q, "order": qs + qs2, "leg": leg},
                             f"first {first[tuple(q)]!r} then {got!r}")
                    break
            # and one fresh parse for a random query
            if qs and rng.random() < 0.3:
                q = rng.choice(qs)
                fresh = parse(prog.text)
                got = observe(factory(fresh, q))
                res["evaluations"] += 1
                if got[0] != first[tuple(q)][0] or (got[0] == "value" and got != first[tuple(q)]):
                    B.record(res, {"leg": leg, "effect": "live-and-fresh-document-disagree"},
                             {"text": prog.text, "path": q, "order": qs, "leg": leg},
                             f"live {first[tuple(q)]!r} fresh {got!r}")
            # structural edits through the mapping API between resolutions: the answers must
            # follow the document (a context attached earlier must not be served stale)
            if leg == "doc" and qs and rng.random() < 0.4:
                from nmverif.checks import c11 as _c11

                class _Shim:
                    pass
                shim = _Shim()
                shim.source, shim.text = live, prog.text
                mutated = False
                for _ in range(rng.choice([1, 2])):
                    m = _c11.mutate_structure(rng, prog, shim)
                    if m is None:
                        continue
                    if m[0] == "skip":
                        mutated = None
                        break
                    mutated = True
                    B.bump(obs["outcome"], "structural-" + m[0])
                if mutated:
                    all_ids2 = frozenset(int(x) for x in ID_RE.findall(prog.text))
                    qs3 = S.queries(prog)
                    rng.shuffle(qs3)
                    for q in qs3:
                        _judge(res, obs, nontriv, prog, q, leg, factory, live, all_ids2, codes, "after-structural-edit")
                if mutated is not False:
                    continue   # the original text no longer describes the live document
            # resolution must not have changed the document
            try:
                after = live.rebuild()
                if after != parse(prog.text).rebuild():
                    B.record(res, {"leg": leg, "effect": "resolution-changed-the-document"},
                             {"text": prog.text, "order": qs, "leg": leg}, after[:300])
            except Exception as exc:  # noqa: BLE001
                B.record(res, {"leg": leg, "effect": "rebuild-raised-after-resolution",
                               "exc": type(exc).__name__}, {"text": prog.text, "leg": leg}, str(exc)[:200])
        if len(res["samples"]) < 2 and i % 97 == 3 and qs:
            res["samples"].append({"text": prog.text[:400], "path": qs[0],
                                   "expected": repr(S.expectation(prog, qs[0]))})
    cov.stop()
    obs["functions_entered_count"] = len(cov.entered)
    res["nontrivial"] = sorted(nontriv)
    return res


def run_history(spec, res):
    """Create / resolve / discard documents in one process; probe reused addresses."""
    from nix_manipulator import parse
    from nix_manipulator import resolution as R
    from nix_manipulator.exceptions import ResolutionError
    from nix_manipulator.expressions.identifier import Identifier
    rng = random.Random(spec["seed"])
    S.reset_uid(spec["uid_base"])
    obs = _new_obs(res)
    obs.update({"history_ops": {}, "registered_ids": 0, "reused_ids_probed": 0, "registry_max": 0,
                "registry_after_all_discarded": 0, "dead_context_served": 0, "pool_max": 0,
                "contexts_validated": 0})
    nontriv = set()
    codes = _step_codes()
    registered: set[int] = set()

    # boundary monitors on the registry (module globals are looked up at call time)
    orig_store, orig_get = R._store_context, R._get_context

    def store(expr, context):
        registered.add(id(expr))
        return orig_store(expr, context)

    def get(expr):
        ctx = orig_get(expr)
        if ctx is not None:
            obs["contexts_validated"] += 1
            entry = R._CONTEXTS.get(id(expr))
            if entry is None or entry[0]() is not expr or entry[1] is not ctx:
                obs["dead_context_served"] += 1
        return ctx

    R._store_context, R._get_context = store, get
    pool = []   # (prog, live, all_ids)
    handles: dict = {}      # id(live document) -> [(query, Identifier taken from it, step)]
    moved_into: set = set()
    try:
        for step in range(spec["n"]):
            k = rng.random()
            if k < 0.25 or not pool:
                prog = S.generate(rng)
                if cst.has_error(prog.text):
                    continue
                wal_text(prog.text)
                pool.append((prog, parse(prog.text), frozenset(int(x) for x in ID_RE.findall(prog.text))))
                # handles: identifiers taken out of the document now and resolved much later, after
                # many other documents have been created and resolved in between
                if rng.random() < 0.35:
                    live_new = pool[-1][1]
                    for q in [q for q in S.queries(prog) if "->" not in q][:2]:
                        try:
                            hv = live_new
                            for kk in q:
                                hv = hv[kk]
                            if isinstance(hv, Identifier):
                                handles.setdefault(id(live_new), []).append((q, hv, step))
                        except Exception:  # noqa: BLE001
                            pass
                B.bump(obs["history_ops"], "create")
                B.bump(obs["legs"], "history")
                obs["pool_max"] = max(obs["pool_max"], len(pool))
            elif k < 0.32 and handles:
                # use an old handle (documents whose structure was changed by a move are skipped)
                cands = [(p_, l_, i_) for (p_, l_, i_) in pool if id(l_) in handles and id(l_) not in moved_into]
                if not cands:
                    continue
                prog, live, ids = rng.choice(cands)
                q, hv, born = rng.choice(handles[id(live)])
                B.bump(obs["history_ops"], "use-handle")
                obs["handle_age_max"] = max(obs.get("handle_age_max", 0), step - born)
                _judge(res, obs, nontriv, prog, q, "history", (lambda _src, _q, hv=hv: (lambda: hv.value)), live, ids,
                       codes, f"handle taken at step {born}, used at step {step}")
            elif k < 0.75:
                prog, live, ids = rng.choice(pool)
                qs = S.queries(prog)
                if not qs:
                    continue
                q = rng.choice(qs)
                B.bump(obs["history_ops"], "resolve")
                _judge(res, obs, nontriv, prog, q, "history", doc_resolver, live, ids, codes, f"step {step}")
            elif k < 0.82 and len(pool) >= 2:
                # move: an identifier taken (and resolved) from document A is assigned into the root
                # set of document B, over an existing key or as a new one; A is discarded; the
                # name must now resolve by B's scoping (or fail), never by A's
                ia, ib = rng.sample(range(len(pool)), 2)
                prog_a, live_a, _ids_a = pool[ia]
                prog_b, live_b, ids_b = pool[ib]
                qa = [q for q in S.queries(prog_a) if "->" not in q and isinstance(_binding_at(prog_a, q), S.Ref)]
                if not qa:
                    continue
                q = rng.choice(qa)
                try:
                    ident = live_a
                    for kk in q:
                        ident = ident[kk]
                    try:
                        ident.value
                    except Exception:  # noqa: BLE001
                        pass
                    existing = [kk for kk, vv in prog_b.root.bindings.items() if isinstance(vv, (int, S.Ref))]
                    kb = rng.choice(existing) if existing and rng.random() < 0.6 else "moved" + str(step)
                    live_b[kb] = ident
                except Exception:  # noqa: BLE001 - the mapping API is C14's subject
                    continue
                prog_b.root.bindings[kb] = S.Ref(_binding_at(prog_a, q).name)
                prog_b.text = S.render(prog_b)
                B.bump(obs["history_ops"], "move")
                pool.pop(ia)
                if ia < ib:
                    ib -= 1
                if rng.random() < 0.5:
                    gc.collect()
                ids_b2 = frozenset(int(x) for x in ID_RE.findall(prog_b.text))
                pool[ib] = (prog_b, live_b, ids_b2)
                moved_into.add(id(live_b))
                handles.pop(id(live_a), None)
                _judge(res, obs, nontriv, prog_b, [kb], "history", doc_resolver, live_b, ids_b2, codes, f"moved at step {step}")
            elif k < 0.9:
                idx = rng.randrange(len(pool))
                handles.pop(id(pool[idx][1]), None)
                pool.pop(idx)
                B.bump(obs["history_ops"], "discard")
                if rng.random() < 0.6:
                    gc.collect()
                    B.bump(obs["history_ops"], "gc")
            else:
                # probe: fresh identifiers (likely at reused addresses) have no scope context
                B.bump(obs["history_ops"], "probe")
                fresh = [Identifier(name=rng.choice(S.NAMES)) for _ in range(60)]
                for ident in fresh:
                    if id(ident) in registered:
                        obs["reused_ids_probed"] += 1
                    try:
                        v = ident.value
                        B.record(res, {"leg": "history", "effect": "stale-context-served-to-a-new-object"},
                                 {"step": step, "seed": spec["seed"]},
                                 f"fresh Identifier({ident.name}) resolved to {v.rebuild()[:60]!r}")
                        break
                    except ResolutionError:
                        pass
                del fresh
            obs["registry_max"] = max(obs["registry_max"], len(R._CONTEXTS))
            if res["witnesses"] and len(res["witnesses"]) > 40:
                break
        pool.clear()
        handles.clear()
        prog = live = None
        gc.collect()
        obs["registry_after_all_discarded"] = len(R._CONTEXTS)
    finally:
        R._store_context, R._get_context = orig_store, orig_get
    obs["registered_ids"] = len(registered)
    if obs["dead_context_served"]:
        B.record(res, {"leg": "history", "effect": "context-of-a-dead-object-served"},
                 {"seed": spec["seed"]}, f"{obs['dead_context_served']} lookups")
    res["nontrivial"] = sorted(nontriv)
    return res


def run_shard(spec):
    res = B.new_result()
    if spec["leg"] == "history":
        return run_history(spec, res)
    return run_docs(spec, res, spec["leg"])


def replay(case):
    from nix_manipulator import parse
    text, path = case["text"], case.get("path")
    out = {"text": text, "path": path}
    if path:
        factory = call_resolver if case.get("leg") == "call" else doc_resolver
        out["observed"] = repr(observe(factory(parse(text), path)))
    return out
