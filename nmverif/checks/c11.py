"""C11 - editing through a reference updates exactly the defining binding."""

import copy
import random
import re

from nmverif.checks import _editbase as B
from nmverif.engines import edit as E
from nmverif.gen import scoping as S
from nmverif.monitor.sysmon import FunctionCoverage
from nmverif.oracle import cst
from nmverif.worker import wal, wal_text

PROPERTY = "C11"
LEVEL = "exploration"
SHARD_TIMEOUT = 900
FLOORS = {"nontrivial": 12000,
          "observed": {"expected_site": 4, "routes": 2, "outcomes": 2}}
RULE = ("G-scope documents (see C10: let / with wrappers, plain and rec sets nested to depth 4, "
        "inherit clauses, the same names bound at several levels or nowhere, chains and cycles, "
        "process-unique integer literals); every binding whose value is a bare name is edited "
        "through two routes - nima's set_value(source, 'k1.k2', NEW) and the API assignment "
        "source[k1][k2].value = NEW - on a fresh document and as histories of up to 5 edits on "
        "one live document, the API histories interleaved with additions / deletions of possibly "
        "shadowing bindings through the mapping API; the reference resolver names the one binding Nix scoping designates "
        "(end of the reference chain) and the expected document is rendered from the abstract "
        "program with exactly that value replaced (or, for a name bound nowhere, the binding at "
        "the path); the emitted text must have the same code tokens; which binding actually "
        "changed is read off the unique integers; non-trivial = the name is bound at two or more "
        "levels, lexically and by a with, or reached through a chain; distinct by (text, path, route)")
ASSUMPTIONS = [
    "Nix scoping as implemented by gen/scoping.py (the same resolver as C10)",
    "a non-recursive sibling attribute with the referenced name: both 'overwrite the path binding' and the test-pinned sibling update (tests/test_cli.py::test_cli_set_follows_identifier_binding) are accepted",
    "reference cycles: any documented refusal or either outcome is accepted (the statement does not say)",
    "API assignment through an unbound name must raise ResolutionError and leave the document unchanged",
]

ID_RE = re.compile(r"\b[1-9]\d{5,}\b")


def tokens(text):
    """Code tokens plus, interleaved, the wording of every comment (a write-through keeps the
    trivia of the binding it rewrites and carries none elsewhere)."""
    r = cst.read(text)
    if r.error:
        return None
    out = [(t, bytes(b)) for t, b in r.tokens]
    notes = sorted((c.anchor, cst.comment_wording(c.raw)[1]) for c in r.comments) if r.comments else []
    return out + [("comment@%d" % a, repr(w).encode()) for a, w in notes]


def site_kind(prog, bindings) -> str:
    """Where in the abstract program does this bindings dict live."""
    found = []

    def walk(s, depth, inside_let_set):
        for fr in s.wrappers:
            if fr.bindings is bindings:
                found.append(("with-env" if fr.kind == "with" else "let-layer"))
            for v in fr.bindings.values():
                if isinstance(v, S.SetExpr):
                    if v.bindings is bindings:
                        found.append("let-bound-set")
                    walk(v, depth + 1, True)
        if s.bindings is bindings:
            found.append(("rec-set" if s.rec else "plain-set"))
        for v in s.bindings.values():
            if isinstance(v, S.SetExpr):
                walk(v, depth + 1, inside_let_set)
    walk(prog.root, 0, False)
    return found[0] if found else "?"


def locate_id(prog, ident: int) -> str:
    out = []

    def walk(s):
        for fr in s.wrappers:
            for v in fr.bindings.values():
                if v == ident and isinstance(v, int):
                    out.append("with-env" if fr.kind == "with" else "let-layer")
                elif isinstance(v, S.SetExpr):
                    if ident in [x for x in v.bindings.values() if isinstance(x, int)]:
                        out.append("let-bound-set")
                    walk(v)
        for v in s.bindings.values():
            if isinstance(v, int) and v == ident:
                out.append("rec-set" if s.rec else "plain-set")
            elif isinstance(v, S.SetExpr):
                walk(v)
    walk(prog.root)
    return out[0] if out else "?"


def parent_set(prog, path):
    cur = prog.root
    for k in path[:-1]:
        cur = cur.bindings[k]
    return cur


def through_with(prog, path) -> bool:
    cur = prog.root
    for k in path[:-1]:
        cur = cur.bindings[k]
        if any(fr.kind == "with" for fr in cur.wrappers):
            return True
    return False


def predictions(prog, path, new, mode="nix"):
    """-> (kind, [expected program copies], site description)"""
    site = S.defining_site(prog, path, mode)
    if site[0] == "cycle":
        return "cycle", [], "cycle"
    outs = []
    if site[0] == "site":
        p2 = copy.deepcopy(prog)
        s2 = S.defining_site(p2, path, mode)
        desc = site_kind(p2, s2[1])
        s2[1][s2[2]] = new
        outs.append(p2)
        return "bound", outs, desc
    if site[0] == "chain-to-unbound":
        # r = a; a = b; b bound nowhere: the end of the chain is the last binding on it; the
        # statement does not single one out, so any binding on the chain is accepted
        for n in range(len(site[1])):
            p2 = copy.deepcopy(prog)
            s2 = S.defining_site(p2, path, mode)
            b, name = s2[1][n]
            b[name] = new
            outs.append(p2)
        # ... and so is treating the name as unbound (the path binding is overwritten)
        p2 = copy.deepcopy(prog)
        parent_set(p2, path).bindings[path[-1]] = new
        outs.append(p2)
        return "chain-to-unbound", outs, "chain-binding-or-path-binding"
    # unbound: the binding at the path itself is overwritten
    p2 = copy.deepcopy(prog)
    ps = parent_set(p2, path)
    name = ps.bindings[path[-1]].name
    ps.bindings[path[-1]] = new
    outs.append(p2)
    desc = "path-binding"
    if name in ps.bindings and not ps.rec and not isinstance(ps.bindings[name], (S.Inherit, S.InheritFrom)):
        # sibling attribute of a plain set: the test-pinned fallback updates the sibling
        p3 = copy.deepcopy(prog)
        ps3 = parent_set(p3, path)
        ps3.bindings[name] = new
        outs.append(p3)
        desc = "path-binding-or-sibling"
    return "unbound", outs, desc


def explain(prog, path, new, out_tokens):
    """Attribute a deviation to one of the two behaviours pinned by the repository's tests:
    (1) sets used as environment / source are evaluated where used, as rec (KF-C10-external-set-as-rec);
    (2) when resolving the name fails, nima set falls back to a top-level let binding or a sibling
        attribute with that name, then to overwriting the path binding."""
    pk, pexp, _pd = predictions(prog, path, new, "pinned")
    S.CROSSINGS[0] = 0
    S.defining_site(prog, path)
    crossing = S.CROSSINGS[0] > 0   # Nix's own resolution evaluates a non-literal value of a set used from outside
    if pk == "bound":
        if any(tokens(S.render(c)) == out_tokens for c in pexp) or crossing:
            return "set-evaluated-where-used-as-rec"
        return "none"
    if crossing:
        return "set-evaluated-where-used-as-rec"
    # resolution fails in the library: fallbacks by name
    ref = parent_set(prog, path).bindings[path[-1]].name
    cands = []
    for i, fr in enumerate(prog.root.wrappers):
        if fr.kind == "let" and ref in fr.bindings and not isinstance(fr.bindings[ref], (S.Inherit, S.InheritFrom)):
            p2 = copy.deepcopy(prog)
            p2.root.wrappers[i].bindings[ref] = new
            cands.append(p2)
    ps = parent_set(prog, path)
    if ref in ps.bindings and not isinstance(ps.bindings[ref], (S.Inherit, S.InheritFrom)):
        p3 = copy.deepcopy(prog)
        parent_set(p3, path).bindings[ref] = new
        cands.append(p3)
    p4 = copy.deepcopy(prog)
    parent_set(p4, path).bindings[path[-1]] = new
    cands.append(p4)
    if any(tokens(S.render(c)) == out_tokens for c in cands):
        return "name-fallback-after-failed-resolution"
    return "none"


def apply_cli(live, path, new):
    op = E.Op("set", ".".join(path), str(new), "through-reference")
    r = live.apply(op)
    if r.out is not None:
        return ("ok", r.out)
    return ("exc", r.exc_type, r.exc_msg, getattr(r, "exc_mro", [r.exc_type]))


def apply_api(live, path, new, value_object=None):
    from nix_manipulator.expressions.identifier import Identifier
    try:
        v = live.source
        for k in path:
            v = v[k]
        if not isinstance(v, Identifier):
            return ("exc", "NotAnIdentifier", type(v).__name__, [])
        v.value = new if value_object is None else value_object
        out = live.source.rebuild()
        live.text = out
        return ("ok", out)
    except RecursionError as exc:
        return ("exc", "RecursionError", str(exc)[:80], ["RecursionError"])
    except Exception as exc:  # noqa: BLE001
        return ("exc", type(exc).__name__, str(exc)[:160], [c.__name__ for c in type(exc).__mro__])


def set_paths(prog):
    """Key paths of all sets of the target tree ([] = the root set)."""
    out = [[]]

    def walk(s, prefix):
        for k, v in s.bindings.items():
            if isinstance(v, S.SetExpr):
                out.append(prefix + [k])
                walk(v, prefix + [k])
    walk(prog.root, [])
    return out


def mutate_structure(rng, prog, live):
    """Add / delete an integer binding in one set of the live document through item assignment;
    the abstract program is updated alike.  -> (what, path, name, new) | ("skip",) | None"""
    paths = [p for p in set_paths(prog)
             if not any(fr.kind == "with" for k in range(len(p))
                        for fr in _setexpr_at(prog, p[:k + 1]).wrappers)]
    if not paths:
        return None
    path = rng.choice(paths)
    target = _setexpr_at(prog, path)
    present = [n for n in S.NAMES if isinstance(target.bindings.get(n), int)]
    absent = [n for n in S.NAMES if n not in target.bindings]
    try:
        v = live.source
        for k in path:
            v = v[k]
        if present and (not absent or rng.random() < 0.4):
            name = rng.choice(present)
            del v[name]
            del target.bindings[name]
            what, new = "del", None
        elif absent:
            name = rng.choice(absent)
            new = S.uid()
            v[name] = new
            target.bindings[name] = new
            what = "add"
        else:
            return None
        out = live.source.rebuild()
    except Exception:  # noqa: BLE001 - the mapping API is C14's subject
        return ("skip",)
    prog.text = S.render(prog)
    if tokens(out) != tokens(prog.text):
        return ("skip",)   # mis-rendered structural edits are C14's subject
    live.text = out
    return (what, path, name, new)


def scenario_plan(rng, prog):
    """Pick a reference whose defining binding is an integer in the root set, in a nested set
    reachable by nima's paths, or in a let layer directly around the root set; plan its removal
    and, half of the time, a re-addition (with the very same value text, or another one)."""
    root = prog.root
    n_layers = 0
    for fr in reversed(root.wrappers):
        if fr.kind != "let":
            break
        n_layers += 1
    cands = []
    for q in ref_queries(prog):
        if through_with(prog, q):
            continue
        site = S.defining_site(prog, q)
        if site[0] != "site" or not isinstance(site[1].get(site[2]), int):
            continue
        b, name = site[1], site[2]
        where = None
        for d in range(1, n_layers + 1):
            if root.wrappers[-d].bindings is b:
                where = ("layer", d)
        for p_ in set_paths(prog):
            if _setexpr_at(prog, p_).bindings is b and not through_with(prog, p_ + ["x"]):
                where = ("set", p_)
        if where is not None:
            cands.append((q, b, name, where))
    if not cands:
        return None
    q, b, name, where = rng.choice(cands)
    spelled = ("@" * where[1] + name) if where[0] == "layer" else ".".join(where[1] + [name])
    readd = None
    if rng.random() < 0.5 and not (where[0] == "layer" and len(b) == 1):
        readd = rng.choice(["same", "new"])
    return {"path": q, "site": (b, name), "where": where, "spelled": spelled, "readd": readd}


def mutate_structure_cli(rng, prog, live):
    """Like mutate_structure, through set_value / remove_value of the same live document, including
    scoped paths (@name) on the let layers directly around the root set."""
    root = prog.root
    n_layers = 0
    for fr in reversed(root.wrappers):
        if fr.kind != "let":
            break
        n_layers += 1
    choices = []
    for p in set_paths(prog):
        if through_with(prog, p + ["x"]):
            continue
        tgt = _setexpr_at(prog, p)
        for n in S.NAMES:
            v = tgt.bindings.get(n)
            if isinstance(v, int):
                choices.append(("rm", ".".join(p + [n]), ("set", p, n)))
            elif n not in tgt.bindings:
                choices.append(("set", ".".join(p + [n]), ("set", p, n)))
    for d in range(1, n_layers + 1):
        fr = root.wrappers[-d]
        for n in S.NAMES:
            v = fr.bindings.get(n)
            if isinstance(v, int):
                choices.append(("rm", "@" * d + n, ("layer", d, n)))
            elif n not in fr.bindings:
                choices.append(("set", "@" * d + n, ("layer", d, n)))
    if n_layers == 0 and not any(k in root.bindings for k in S.NAMES[:1]):
        # `set @name v` on a set without let layer creates one (unless name is a body attribute)
        for n in S.NAMES:
            if n not in root.bindings:
                choices.append(("set", "@" + n, ("new-layer", 1, n)))
    if not choices:
        return None
    # names that some reference of the document mentions matter most: removing / adding them
    # changes what the next write-through has to hit
    mentioned = {parent_set(prog, q).bindings[q[-1]].name for q in ref_queries(prog)}
    weighted = [c for c in choices for _ in range(5 if c[2][2] in mentioned else 1)]
    kind, npath, where = rng.choice(weighted)
    new = S.uid() if kind == "set" else None
    r = live.apply(E.Op(kind, npath, str(new) if new is not None else "", "structural"))
    if r.out is None:
        return ("skip",)
    if where[0] == "set":
        tgt = _setexpr_at(prog, where[1])
        if kind == "rm":
            del tgt.bindings[where[2]]
        else:
            tgt.bindings[where[2]] = new
    elif where[0] == "layer":
        fr = root.wrappers[-where[1]]
        if kind == "rm":
            del fr.bindings[where[2]]
            if not fr.bindings:
                del root.wrappers[len(root.wrappers) - where[1]]
        else:
            fr.bindings[where[2]] = new
    else:
        root.wrappers.append(S.Frame("let", {where[2]: new}))
    prog.text = S.render(prog)
    if tokens(r.out) != tokens(prog.text):
        return ("skip",)   # mis-rendered structural edits are C05 / C09's subject
    return ("cli-" + kind, npath, where[2], new)


def _setexpr_at(prog, path):
    cur = prog.root
    for k in path:
        cur = cur.bindings[k]
    return cur


def ref_queries(prog):
    out = []

    def walk(s, prefix):
        for k, v in s.bindings.items():
            if isinstance(v, S.Ref):
                out.append(prefix + [k])
            elif isinstance(v, S.SetExpr):
                walk(v, prefix + [k])
    walk(prog.root, [])
    return out


def head_crossing(frames, v, path) -> str:
    """Documents with a function head / assert between scopes and the set: does naming the
    defining binding need the scopes outside that head?

    none           - no such head
    not-needed     - the same binding is designated with the outer scopes cut off
    needed-simple  - the reference at the path names, in one hop, a literal binding of the
                     document's outermost let layer, no other layer outside the head binds that
                     name and nothing inside the head binds or could bind it
    needed-complex - anything else (chains, with environments, inherit, sets bound outside)"""
    idx = max((i for i, f in enumerate(frames) if f.kind == "opaque"), default=None)
    if idx is None:
        return "none"
    inner = frames[idx + 1:]
    for i, f in enumerate(inner):
        if f.kind == "with" and f.env_name is not None:
            try:
                S.lookup_set(inner[:i], f.env_name, frozenset())
            except (S.Unbound, S.Cycle, RecursionError):
                return "needed-complex"

    def site(fr):
        try:
            res = S.evaluate(fr, len(fr) - 1, path[-1], frozenset())
        except S.Unbound as exc:
            return ("unbound", tuple((id(a), b) for a, b in getattr(exc, "links", [])))
        except (S.Cycle, RecursionError):
            return ("cycle",)
        where = res[2] if res[0] == "value" else res[3]
        return ("site", id(where[0]), where[1])

    full, trunc = site(frames), site(inner)
    if full == trunc:
        return "not-needed"
    if isinstance(v, S.Ref) and trunc[0] == "unbound" and len(trunc[1]) <= 1 and full[0] == "site":
        f = frames[0]
        if f.kind == "let" and id(f.bindings) == full[1] and full[2] == v.name \
                and isinstance(f.bindings.get(v.name), int) \
                and not any(v.name in g.bindings for g in frames[1:idx] if g.kind in ("let", "rec")):
            return "needed-simple"
    return "needed-complex"


def plan(tier, seed):
    n_shards = 16 if tier == "quick" else 64
    n = 2200 if tier == "quick" else 9000
    return [{"seed": seed * 6007 + i * 15485863 + 29, "n": n, "uid_base": 200000000 + (i + 1) * 1000000}
            for i in range(n_shards)]


def run_shard(spec):
    rng = random.Random(spec["seed"])
    S.reset_uid(spec["uid_base"])
    res = B.new_result()
    obs = res["observed"]
    obs.update({"expected_site": {}, "routes": {}, "outcomes": {}, "kinds": {}, "history_len": {},
                "via_chain": 0, "explained_by_pinned": 0, "stable_outputs": 0})
    nontriv = set()
    cov = FunctionCoverage()
    cov.start()
    for i in range(spec["n"]):
        route = rng.choice(["cli", "cli", "api"])
        # command-line route: sometimes a function head / assert between the scopes and the set
        # (the let around a function head still encloses the body: `let a = 1; in { pkgs }: { x = a; }`)
        # ... and sometimes the set is reached through a name: the document body is a name bound
        # to the set in one of its let layers (later layers may rebind what the set refers to)
        via_alias = route == "cli" and rng.random() < 0.15
        prog = S.generate(rng, opaque=(route == "cli" and not via_alias and rng.random() < 0.3), alias=via_alias)
        if cst.has_error(prog.text):
            res["inconclusive"] += 1
            continue
        qs = ref_queries(prog)
        if not qs:
            continue
        history = rng.random() < 0.5 and prog.alias is None
        steps = rng.choice([2, 3, 5]) if history else 1
        try:
            live = E.LiveDoc(prog.text)
        except Exception as exc:  # noqa: BLE001
            B.record(res, {"effect": "parse-raised", "exc": type(exc).__name__}, {"text": prog.text}, str(exc)[:200])
            continue
        trail = []
        # scenario histories: write through one reference, unbind (and maybe re-add) the binding that
        # defined it through nima's own rm / set, write through the same reference again
        plan = None
        # (flat one-line rec sets: structurally equal bindings are most likely there - always)
        flat_rec = route == "cli" and prog.alias is None and prog.root.rec and prog.root.inline \
            and not prog.root.wrappers
        if flat_rec:
            history, steps = True, max(steps, 5)
        if history and route == "cli" and (flat_rec or rng.random() < 0.45):
            plan = scenario_plan(rng, prog)
            if plan is not None:
                steps = 2
                B.bump(obs["kinds"], "scenario-write-unbind-write")
        for step in range(steps):
            if plan is not None and step == 1:
                name_ = plan["site"][1]
                # (the model object was replaced by the committed copy: find the site again by position)
                if plan["where"][0] == "layer":
                    if plan["where"][1] > len(prog.root.wrappers):
                        break
                    b_ = prog.root.wrappers[-plan["where"][1]].bindings
                else:
                    b_ = _setexpr_at(prog, plan["where"][1]).bindings
                old_val = b_.get(name_)
                r_ = live.apply(E.Op("rm", plan["spelled"], "", "structural"))
                if r_.out is None or not isinstance(old_val, int):
                    break
                del b_[name_]
                trail.append({"route": "mutate", "what": "cli-rm", "path": plan["spelled"], "name": name_, "new": None})
                if plan["where"][0] == "layer" and not b_:
                    idx = next(i for i, fr in enumerate(prog.root.wrappers) if fr.bindings is b_)
                    del prog.root.wrappers[idx]
                if plan["readd"]:
                    val = old_val if plan["readd"] == "same" else S.uid()
                    r_ = live.apply(E.Op("set", plan["spelled"], str(val), "structural"))
                    if r_.out is None:
                        break
                    b_[name_] = val
                    trail.append({"route": "mutate", "what": "cli-set", "path": plan["spelled"], "name": name_, "new": val})
                prog.text = S.render(prog)
                if tokens(live.text) != tokens(prog.text):
                    break
            elif plan is None and step and rng.random() < 0.5:
                # between two write-throughs: add or delete a binding that may shadow or unbind a
                # name - through the mapping API (api histories) or through nima's own set / rm,
                # also on the let layers around the root set (cli histories); the next write must
                # see the new scoping
                m = mutate_structure(rng, prog, live) if route == "api" else mutate_structure_cli(rng, prog, live)
                if m is None:
                    pass
                elif m[0] == "skip":
                    break
                else:
                    trail.append({"route": "mutate", "what": m[0], "path": m[1], "name": m[2], "new": m[3]})
                    B.bump(obs["kinds"], "structural-" + m[0])
            qs = [q for q in ref_queries(prog) if S.expectation(prog, q)[0] != "set"]
            if not qs:
                break
            path = rng.choice(qs)
            if plan is not None:
                if plan["path"] not in qs:
                    break
                path = plan["path"]
            new = S.uid()
            value_object = None
            if route == "api":
                # half of the API assignments pass an expression object; sometimes the very object
                # that was assigned in the previous step (the caller may reuse its value)
                from nix_manipulator.expressions.primitive import Primitive
                prev = getattr(live, "last_value_object", None)
                if prev is not None and rng.random() < 0.4:
                    new, value_object = prev
                elif rng.random() < 0.6:
                    value_object = Primitive(new)
                live.last_value_object = (new, value_object) if value_object is not None else None
            text_before = S.render(prog)
            wal(f"{route} {'.'.join(path)} {new}")
            kind, expected, desc = predictions(prog, path, new)
            feats = S.features(prog, path)
            B.bump(obs["expected_site"], desc)
            B.bump(obs["routes"], route)
            B.bump(obs["kinds"], kind)
            res["evaluations"] += 1
            frames, v = S.frames_for(prog, path)
            chain = False
            if kind == "bound":
                # is the referenced name's own binding another reference (chain)?
                try:
                    r0 = None
                    for fr in reversed(frames):
                        if fr.kind in ("let", "rec") and v.name in fr.bindings:
                            r0 = fr.bindings[v.name]
                            break
                    chain = isinstance(r0, (S.Ref, S.Inherit, S.InheritFrom))
                except Exception:  # noqa: BLE001
                    chain = False
                if chain:
                    obs["via_chain"] += 1
            if feats.get("lexical_count") in ("2", "3") or chain or \
                    (feats.get("lexical") != "none" and feats.get("with_candidate") == "yes"):
                nontriv.add(B.h64(text_before + ".".join(path) + route))
            got = apply_cli(live, path, new) if route == "cli" else apply_api(live, path, new, value_object)
            trail.append({"route": route, "path": path, "new": new,
                          "object": "reused" if (value_object is not None and getattr(live, "last_value_object", None)
                                                 and trail and trail[-1].get("new") == new) else
                                    ("fresh" if value_object is not None else "python-int")})
            case = {"text": prog.text, "trail": list(trail), "step": step}
            base = {"route": route, "expected_site": desc, "kind": kind, "history": "yes" if step else "no",
                    "lexical": feats.get("lexical", "?"), "with_inside_lexical": feats.get("with_inside_lexical", "?"),
                    "depth": feats.get("depth", "?")}
            if prog.alias is not None:
                base["alias_under_with"] = "yes" if any(f.kind == "with" for f in prog.root.wrappers) else "no"
            hc = head_crossing(frames, v, path)
            if hc != "none":
                base["head_crossing"] = hc
                B.bump(obs.setdefault("head_crossing", {}), hc)

            def fail(effect, detail, **extra):
                k = dict(base)
                k["effect"] = effect
                k.update(extra)
                # would the variant pinned by the repository's tests explain it?
                k.setdefault("explained_by", "none")
                B.record(res, k, case, detail)

            B.bump(obs["outcomes"], got[0] if got[0] == "ok" else got[1])
            if kind == "cycle":
                if got[0] == "exc" and not ({"KeyError", "ValueError", "ResolutionError"} & set(got[3])):
                    fail("undocumented-exception", f"{got[1]}: {got[2]}", exc=got[1])
                break  # model cannot follow an unspecified outcome
            if got[0] == "exc":
                if route == "cli" and "ValueError" in got[3] and through_with(prog, path):
                    # the CLI does not walk through a nested `with`: documented refusal, not an edit
                    B.bump(obs["outcomes"], "refused-nested-with")
                    try:
                        now = live.source.rebuild()
                    except Exception as exc:  # noqa: BLE001
                        fail("rebuild-raised-after-refusal", str(exc)[:200], exc=type(exc).__name__)
                        break
                    if tokens(now) != tokens(text_before):
                        fail("refused-edit-changed-the-document", now[:300])
                        break
                    continue
                if route == "api" and kind in ("unbound", "chain-to-unbound") and got[1] == "ResolutionError":
                    # documented: nothing to write through; document must be unchanged
                    try:
                        now = live.source.rebuild()
                    except Exception as exc:  # noqa: BLE001
                        fail("rebuild-raised-after-refusal", str(exc)[:200], exc=type(exc).__name__)
                        break
                    if tokens(now) != tokens(text_before):
                        fail("refused-assignment-changed-the-document", now[:300])
                        break
                    continue
                pinned_kind, _pe, _pd = predictions(prog, path, new, "pinned")
                fail("edit-refused", f"{got[1]}: {got[2]}", exc=got[1],
                     explained_by=("set-evaluated-where-used-as-rec" if pinned_kind != kind else "none"))
                break
            out = got[1]
            out_tokens = tokens(out)
            if out_tokens is None:
                fail("output-syntax-error", out[:400])
                break
            matched = None
            for cand in expected:
                if tokens(S.render(cand)) == out_tokens:
                    matched = cand
                    break
            if matched is None:
                in_ids = set(int(x) for x in ID_RE.findall(text_before))
                out_ids = set(int(x) for x in ID_RE.findall(out))
                removed = in_ids - out_ids
                added = out_ids - in_ids
                ex = explain(prog, path, new, out_tokens)
                if ex != "none":
                    obs["explained_by_pinned"] += 1
                if added != {new}:
                    fail("new-value-not-written-once", f"added={sorted(added)} removed={sorted(removed)} out={out[:300]!r}",
                         explained_by=ex)
                elif len(removed) == 1:
                    fail("wrong-binding-updated", f"changed {locate_id(prog, next(iter(removed)))} binding "
                         f"(id {next(iter(removed))}), expected {desc}; out={out[:400]!r}",
                         changed=locate_id(prog, next(iter(removed))), explained_by=ex)
                elif not removed:
                    fail("reference-overwritten-or-binding-added", f"expected {desc}; out={out[:400]!r}",
                         explained_by=ex)
                else:
                    fail("more-than-one-binding-changed", f"removed={sorted(removed)}; out={out[:400]!r}",
                         explained_by=ex)
                break
            # commit the model
            prog = matched
            prog.text = S.render(prog)
            # the emitted text must be a fixed point for the next parse (feeds histories)
            if step == steps - 1:
                B.bump(obs["history_len"], str(step + 1))
        if len(res["samples"]) < 2 and i % 53 == 7 and trail:
            res["samples"].append({"text": prog.text[:300], "trail": trail[:2]})
    cov.stop()
    obs["functions_entered_count"] = len(cov.entered)
    res["nontrivial"] = sorted(nontriv)
    return res


def replay(case):
    live = E.LiveDoc(case["text"])
    outs = []
    for st in case["trail"]:
        if st["route"] == "mutate" and str(st["what"]).startswith("cli-"):
            r = live.apply(E.Op(st["what"][4:], st["path"], str(st["new"]) if st["new"] is not None else "", "structural"))
            outs.append("cli structural: " + repr(r.out)[:300])
            continue
        if st["route"] == "mutate":
            v = live.source
            for k in st["path"]:
                v = v[k]
            if st["what"] == "del":
                del v[st["name"]]
            else:
                v[st["name"]] = st["new"]
            outs.append("mutated: " + live.source.rebuild()[:300])
            continue
        got = apply_cli(live, st["path"], st["new"]) if st["route"] == "cli" else apply_api(live, st["path"], st["new"])
        outs.append(repr(got)[:600])
    return {"text": case["text"], "trail": case["trail"], "observed": outs}
