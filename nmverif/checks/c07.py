"""C07 - sources with syntax errors are passed through untouched and never edited."""

import contextlib
import io
import random

from nmverif.checks import _editbase as B
from nmverif.gen import canon, damage, nixgen, trivia
from nmverif.monitor.sysmon import FunctionCoverage
from nmverif.oracle import cst
from nmverif.worker import quarantined, wal, wal_text

PROPERTY = "C07"
LEVEL = "fault_enumeration"
SHARD_TIMEOUT = 900
FLOORS = {"nontrivial": 20000, "observed": {"gates.rebuild": 20000, "gates.cli_test": 1500,
                                            "gates.edit_refused": 1500, "gates.value_refused": 1500,
                                            "operators": 5}}
RULE = ("fault enumeration: seed programs (G-canon documents and G-nix programs) x every damage "
        "operator (delete / duplicate / insert-stray / swap a token) at every token position and "
        "truncation at every byte, plus non-Nix texts, each wrapped in random leading/trailing "
        "whitespace; kept only if the oracle parser reports an error; for every such text: "
        "parse().rebuild() must equal it byte for byte; a sample goes through the in-process CLI "
        "`test` (Fail, 1), through set_value/remove_value as document (must raise) and as VALUE "
        "of a set on a valid document (must raise, document unchanged); non-trivial = an erroneous "
        "text; distinct by content hash")
ASSUMPTIONS = [
    "'contains a syntax error' is decided by an oracle-owned tree-sitter parser (same grammar as the tool)",
    "the CLI leg runs main(argv) in-process with redirected stdin/stdout (the subprocess leg is C16's)",
]


def seeds(rng, n):
    out = []
    for i in range(n):
        if i % 2 == 0:
            g = canon.DocGen(rng, hyphen=True, max_entries=4)
            out.append(canon.render(g.doc()))
        else:
            toks, glue = nixgen.generate(rng, max_depth=rng.choice([2, 3, 4]), budget=rng.choice([15, 40]),
                                         rare=False)
            r = trivia.choose_and_render(toks, glue, rng, "line-comments", density=0.1)
            if r is not None:
                out.append(r.text)
    return out


def cli_test(text: str):
    from nix_manipulator.cli.main import main
    import sys
    out = io.StringIO()
    old_stdin = sys.stdin
    sys.stdin = io.StringIO(text)
    try:
        with contextlib.redirect_stdout(out):
            try:
                status = main(["test"])
            except SystemExit as e:
                status = e.code
            except Exception as e:  # noqa: BLE001
                return ("exc:" + type(e).__name__, out.getvalue())
    finally:
        sys.stdin = old_stdin
    return (status, out.getvalue())


def plan(tier, seed):
    n_shards = 16 if tier == "quick" else 64
    return [{"seed": seed * 5003 + i * 32452843 + 21, "seeds": 50 if tier == "quick" else 400,
             "non_nix": i == 0} for i in range(n_shards)]


def run_shard(spec):
    from nix_manipulator import parse
    from nix_manipulator.cli.manipulations import remove_value, set_value
    rng = random.Random(spec["seed"])
    res = B.new_result()
    obs = res["observed"]
    obs.update({"gates": {"rebuild": 0, "cli_test": 0, "edit_refused": 0, "value_refused": 0},
                "operators": {}, "error_position": {}, "discarded_still_valid": 0})
    nontriv = set()
    cov = FunctionCoverage()
    cov.start()

    def check(text_bytes: bytes, opname: str, pos: str):
        try:
            text = text_bytes.decode("utf-8")
        except UnicodeDecodeError:
            return
        if not cst.has_error(text_bytes):
            obs["discarded_still_valid"] += 1
            return
        wrapped, lead, trail = damage.wrap_whitespace(text_bytes, rng)
        text = wrapped.decode("utf-8")
        if not cst.has_error(wrapped):
            obs["discarded_still_valid"] += 1
            return
        res["evaluations"] += 1
        B.bump(obs["operators"], opname)
        B.bump(obs["error_position"], pos)
        nontriv.add(B.h64(text))
        base = {"damage": opname, "position": pos, "lead_ws": lead, "trail_ws": trail}
        case = {"text": text}

        def fail(effect, detail, **extra):
            k = dict(base)
            k["effect"] = effect
            k.update(extra)
            B.record(res, k, case, detail)

        wal_text(text)
        try:
            doc = parse(text)
            out = doc.rebuild()
        except Exception as exc:  # noqa: BLE001
            fail("raised-on-erroneous-input", f"{type(exc).__name__}: {exc}", exc=type(exc).__name__)
            return
        obs["gates"]["rebuild"] += 1
        if out != text:
            kind = "other"
            if out == text.lstrip(" \t\r\n"):
                kind = "leading-whitespace-lost"
            elif out.strip() == text.strip():
                kind = "edge-whitespace-changed"
            fail("erroneous-input-rewritten", f"OUT={out!r}", change=kind)
            return
        sample = rng.random()
        if sample < 0.12:
            obs["gates"]["cli_test"] += 1
            status, stdout = cli_test(text)
            if status != 1 or stdout != "Fail\n":
                fail("cli-test-verdict-wrong", f"status={status!r} stdout={stdout!r}")
        elif sample < 0.24:
            obs["gates"]["edit_refused"] += 1
            # every path form: plain, nested, quoted, scope selectors of several depths
            npath = rng.choice(["a", "a", "a.b", '"q r"', "@a", "@a", "@@a", "@a.b", "meta.broken"])
            for opk in ("set", "rm"):
                try:
                    src = parse(text)
                    got = set_value(src, npath, "1") if opk == "set" else remove_value(src, npath)
                    fail("erroneous-document-edited", f"{opk} {npath} returned {got!r}", op=opk,
                         path_form="scoped" if npath.startswith("@") else "plain")
                except (ValueError, KeyError):
                    try:
                        after = src.rebuild()
                    except Exception as exc:  # noqa: BLE001
                        fail("rebuild-raised-after-refused-edit", f"{type(exc).__name__}: {exc}", op=opk)
                        continue
                    if after != text:
                        fail("erroneous-document-changed-by-refused-edit", f"{opk} {npath}: {after!r}", op=opk)
                except Exception as exc:  # noqa: BLE001
                    fail("undocumented-exception", f"{type(exc).__name__}: {exc}", op=opk,
                         exc=type(exc).__name__)
        elif sample < 0.36:
            obs["gates"]["value_refused"] += 1
            good = "{\n  a = 1;\n}\n"
            src = parse(good)
            vpath = rng.choice(["a", "a", "fresh", "a.b", "@s", "@s.t"])
            try:
                got = set_value(src, vpath, text)
                fail("erroneous-value-accepted", f"{vpath} returned {got!r}")
            except (ValueError, KeyError):
                if src.rebuild() != good:
                    fail("document-changed-by-refused-value", repr(src.rebuild()))
            except Exception as exc:  # noqa: BLE001
                fail("undocumented-exception", f"{type(exc).__name__}: {exc}", op="set-value",
                     exc=type(exc).__name__)

    if spec.get("non_nix"):
        for t in damage.NON_NIX:
            check(t.encode("utf-8"), "non-nix", "whole")
        # a value argument that is not exactly one expression
        for bad in ["", "   ", "# c", "/* c */", "\n", "1;", "a b )", "{ a = ", "''", '"']:
            good = "{\n  a = 1;\n}\n"
            src = parse(good)
            res["evaluations"] += 1
            try:
                got = set_value(src, "a", bad)
                B.record(res, {"effect": "invalid-value-accepted", "value": repr(bad)[:20]},
                         {"value": bad}, repr(got))
            except (ValueError, KeyError):
                pass
    if spec.get("non_nix"):
        # the error deep inside well-formed nesting (beyond the interpreter's recursion limit):
        # the pass-through must not depend on walking down to it
        for depth in (200, 1200, 3000):
            for pre, bad, suf in (("[ ", "1 2 =", " ]"), ("{ a = ", "1 2 =", "; }"), ("(", "1 +", ")"),
                                  ("f (", "x y =", ")")):
                check((pre * depth + bad + suf * depth).encode("utf-8"), "deep-nesting", f"depth-{depth}")
    for si, seed_text in enumerate(seeds(rng, spec["seeds"])):
        wal(f"seed {spec['seed']}:{si}")
        if cst.has_error(seed_text):
            continue
        for opname, pos, data in damage.damaged_texts(seed_text, rng, max_per_op=60):
            check(data, opname, pos)
        if len(res["samples"]) < 2:
            res["samples"].append({"seed_program": seed_text[:200]})
    cov.stop()
    res["nontrivial"] = sorted(nontriv)
    obs["functions_entered"] = sorted(f for f in cov.entered if "source_code" in f or "cli" in f or "raw" in f)
    return res


def replay(case):
    from nix_manipulator import parse
    text = case["text"]
    out = parse(text).rebuild()
    if out != text:
        return [{"key": {"effect": "erroneous-input-rewritten"}, "detail": repr(out)}]
    return []
