"""Shared shard loop for the edit family."""

from __future__ import annotations

import hashlib
import random
import time

from nmverif.engines import edit as E
from nmverif.monitor.sysmon import FunctionCoverage
from nmverif.oracle import attrtree as A
from nmverif.oracle import cst
from nmverif.worker import wal


def h64(text: str) -> int:
    return int.from_bytes(hashlib.sha1(text.encode("utf-8", "replace")).digest()[:7], "big")


def bump(d: dict, k: str, n: int = 1) -> None:
    d[k] = d.get(k, 0) + n


def new_result() -> dict:
    return {"evaluations": 0, "nontrivial": [], "witnesses": [], "samples": [],
            "observed": {"ops": {}, "op_classes": {}, "outcomes": {}, "wrappers": {},
                         "exceptions": {}, "shapes": {}}, "inconclusive": 0}


def record(res: dict, key: dict, case: dict, detail: str) -> None:
    res["witnesses"].append({"key": key, "case": case, "detail": detail[:1500]})


EMPTY_BODY_DOCS = ["{ }\n", "# keep me\n{ }\n", "{ } # trailing\n", "{ pkgs }: # note\n{ }\n",
                   "{ pkgs }:\n{ }\n", "let\n  v = 1;\nin\n{ } # trailing\n", "# top\nf { }\n"]


# documents written on one line, with dotted bindings (the one-line / multi-line decision has to
# look at what is rendered, not at the merged values)
ONE_LINE_DOCS = ["{ a.x = 0; }\n", "{ a.x = 0; b = 1; }\n", "{ m = { p.q = 1; }; }\n", "f { a.x = 0; a.y = 1; }\n",
                 "{ a = 1; }\n", "let v = 1; in { a.x = 0; }\n"]


def make_document(rng: random.Random, *, canonical_only: bool = False, **kw):
    kw.setdefault("hyphen", False)
    kw.setdefault("comment_rate", rng.choice([1.0, 1.0, 1.0, 3.0, 5.0]))
    text, doc = E.canonical_doc(rng, **kw)
    canonical = True
    if rng.random() < 0.05:
        # boundary: a body set without bindings, with and without comments around it
        text = rng.choice(EMPTY_BODY_DOCS)
    elif rng.random() < 0.03 and not canonical_only:
        text = rng.choice(ONE_LINE_DOCS)
        canonical = False
    if not canonical_only and rng.random() < 0.3:
        text2 = E.noncanonical_variant(rng, text)
        if not cst.has_error(text2):
            text, canonical = text2, False
    return text, doc, canonical


def mixed_keys(dv, npath: str) -> dict:
    """Key attributes for attributes written both as an explicit set and through dotted
    bindings (`a = { .. }; a.x = ..;`): legal Nix, two structures inside the library."""
    from nmverif.oracle import editmodel as M
    out = {"mixed_on_path": "no", "doc_mixed": "no"}
    try:
        if dv.target is None:
            return out
        if A.doc_has_mixed(dv):
            out["doc_mixed"] = "yes"
        depth, segs = M.parse_npath(npath)
        if depth:
            lists = [dv.layers[-depth]] if 0 < depth <= len(dv.layers) else []
        else:
            lists = [dv.target.bindings]
        if any(A.mixed_on_path(bl, segs) for bl in lists):
            out["mixed_on_path"] = "yes"
    except Exception:  # noqa: BLE001 - malformed paths have no such attribute
        pass
    return out
