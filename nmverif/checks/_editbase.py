"""Shared shard loop for the edit family."""

from __future__ import annotations

import hashlib
import random
import time

from nmverif.engines import edit as E
from nmverif.monitor.sysmon import FunctionCoverage
from nmverif.oracle import attrtree as A
from nmverif.oracle import cst
from nmverif.worker import wal


def h64(text: str) -> int:
    return int.from_bytes(hashlib.sha1(text.encode("utf-8", "replace")).digest()[:7], "big")


def bump(d: dict, k: str, n: int = 1) -> None:
    d[k] = d.get(k, 0) + n


def new_result() -> dict:
    return {"evaluations": 0, "nontrivial": [], "witnesses": [], "samples": [],
            "observed": {"ops": {}, "op_classes": {}, "outcomes": {}, "wrappers": {},
                         "exceptions": {}, "shapes": {}}, "inconclusive": 0}


def record(res: dict, key: dict, case: dict, detail: str) -> None:
    res["witnesses"].append({"key": key, "case": case, "detail": detail[:1500]})


def make_document(rng: random.Random, *, canonical_only: bool = False, **kw):
    kw.setdefault("hyphen", False)
    text, doc = E.canonical_doc(rng, **kw)
    canonical = True
    if not canonical_only and rng.random() < 0.3:
        text2 = E.noncanonical_variant(rng, text)
        if not cst.has_error(text2):
            text, canonical = text2, False
    return text, doc, canonical
