"""Shared shard loop for the round-trip family (C01 C03 C06 C18 C20-crash leg)."""

from __future__ import annotations

import hashlib
import time

from nmverif.engines import rt
from nmverif.monitor.sysmon import FunctionCoverage
from nmverif.oracle import cst, roundtrip as R
from nmverif.worker import wal

MAX_MINIMISE_PER_SHARD = 400
MAX_TESTS_PER_WITNESS = 160


def h64(text: str) -> int:
    return int.from_bytes(hashlib.sha1(text.encode("utf-8", "replace")).digest()[:7], "big")


def bump(d: dict, k: str, n: int = 1) -> None:
    d[k] = d.get(k, 0) + n


def ddmin(items: list, test, budget: list) -> list:
    """Minimal sublist of `items` for which test(sublist) is still True (1-minimal-ish)."""
    if test([]):
        return []
    cur = list(items)
    n = 2
    while len(cur) >= 2 and budget[0] > 0:
        chunk = max(1, len(cur) // n)
        subsets = [cur[i:i + chunk] for i in range(0, len(cur), chunk)]
        reduced = False
        for sub in subsets:
            if len(sub) < len(cur) and test(sub):
                cur, n, reduced = sub, 2, True
                break
        if not reduced:
            for sub in subsets:
                comp = [x for x in cur if x not in sub]
                if comp and len(comp) < len(cur) and test(comp):
                    cur, n, reduced = comp, max(n - 1, 2), True
                    break
        if not reduced:
            if n >= len(cur):
                break
            n = min(len(cur), n * 2)
    return cur


def run(spec: dict, judge, *, passes: int, nontrivial, want_out_read: bool = True,
        domain=None) -> dict:
    """judge(ob, rin, rout) -> list[key dict]; nontrivial(rin, ob) -> bool."""
    cov = FunctionCoverage()
    cov.start()
    res = {"evaluations": 0, "nontrivial": [], "witnesses": [], "samples": [],
           "observed": {"layers": {}, "cells": {}, "exceptions": {}, "gap_classes": {}},
           "inconclusive": 0}
    obs = res["observed"]
    nontriv: set[int] = set()
    t0 = time.time()
    minimised = 0

    def evaluate(t: str):
        rin_t = cst.read(t)
        if rin_t.error:
            return None, None, None, None
        if domain is not None and not domain(rin_t):
            return rin_t, None, None, "outside"
        ob = R.observe(t, passes=passes)
        rout = None
        if ob.out is not None and want_out_read:
            rout = cst.read(ob.out)
        keys = judge(ob, rin_t, rout)
        if ob.passthrough:
            keys = [{"effect": "valid-input-passed-through"}]
        return rin_t, ob, keys, None

    cap = int(spec.get("max_minimise", MAX_MINIMISE_PER_SHARD))
    for case in rt.items(spec):
        cid, text, layer = case.id, case.text, case.layer
        if minimised >= cap and case.gaps and case._render is not None:
            # every witness has to be reduced to its mechanism before it can be compared with the
            # known findings; once the shard's reduction budget is used up the rest of its workload
            # is not executed (reported), rather than judged without attribution
            bump(obs, "cases_not_executed_after_reduction_budget")
            continue
        if text is None:
            bump(obs, "not_constructible")
            continue
        wal(cid)
        rin, ob, keys, flag = evaluate(text)
        if rin is None:
            bump(obs, "generator_rejected")
            continue
        if flag == "outside":
            bump(obs, "outside_domain")
            continue
        res["evaluations"] += 1
        bump(obs["layers"], layer)
        for _gid, cls in case.gaps:
            bump(obs["gap_classes"], rt.CLASS_GROUP.get(cls, cls))
        if ob.exc_type:
            bump(obs["exceptions"], ob.exc_type)
        if ob.passthrough:
            bump(obs, "passthrough")
        for c in rin.comments:
            bump(obs["cells"], f"{c.parent}|{c.prev}|{c.next}|{c.kind}|{c.placement}")
        if nontrivial(rin, ob):
            nontriv.add(h64(text))
        if len(res["samples"]) < 3 and res["evaluations"] % 97 == 1:
            res["samples"].append({"id": cid, "input": text[:400], "output": (ob.out or "")[:400]})
        if not keys:
            continue
        effects = []
        for k in keys:
            if k["effect"] not in effects:
                effects.append(k["effect"])
        for effect in effects:
            final_text = text
            final_keys = [k for k in keys if k["effect"] == effect]
            final_ob = ob
            kept = [g for g, _ in case.gaps]
            if case.gaps and case._render is not None:
                minimised += 1
                budget = [MAX_TESTS_PER_WITNESS]
                cache: dict = {}

                def test(sub, effect=effect):
                    budget[0] -= 1
                    t2 = case.rerender(set(sub))
                    if t2 is None:
                        return False
                    if t2 in cache:
                        return cache[t2][0]
                    r2, ob2, k2, f2 = evaluate(t2)
                    ok = bool(k2) and any(k["effect"] == effect for k in k2)
                    cache[t2] = (ok, ob2, k2)
                    return ok

                kept = ddmin([g for g, _ in case.gaps], test, budget)
                t2 = case.rerender(set(kept))
                if t2 is not None and t2 in cache and cache[t2][0]:
                    final_text = t2
                    final_ob = cache[t2][1]
                    final_keys = [k for k in cache[t2][2] if k["effect"] == effect]
                elif t2 is not None and t2 != text:
                    r2, ob2, k2, f2 = evaluate(t2)
                    if k2 and any(k["effect"] == effect for k in k2):
                        final_text, final_ob = t2, ob2
                        final_keys = [k for k in k2 if k["effect"] == effect]
                    else:
                        kept = [g for g, _ in case.gaps]
            gaps_desc = rt.describe_gaps(case, set(kept), final_text) if kept else []
            for key in final_keys[:3]:
                k = dict(key)
                k["layer"] = layer
                k["n_gaps"] = str(len(kept))
                if gaps_desc:
                    k["gaps"] = gaps_desc[:6]
                res["witnesses"].append({
                    "key": k,
                    "case": {"id": cid, "text": final_text, "original": text if final_text != text else None,
                             **{m: v for m, v in case.meta.items() if not m.startswith("_")}},
                    "detail": (f"OUT={final_ob.out!r}"[:1200]
                               + (f" OUT2={final_ob.out2!r}"[:600]
                                  if final_ob.out2 is not None and final_ob.out2 != final_ob.out else "")
                               + (f" EXC={final_ob.exc_type}: {final_ob.exc_msg}" if final_ob.exc_type else "")),
                })
    cov.stop()
    res["nontrivial"] = sorted(nontriv)
    obs["functions_entered"] = sorted(cov.entered)
    obs["cells_distinct"] = len(obs["cells"])
    obs["witnesses_minimised"] = minimised
    if len(obs["cells"]) > 60:
        top = sorted(obs["cells"].items(), key=lambda kv: -kv[1])[:60]
        obs["cells"] = dict(top)
    obs["shard_wall_s"] = round(time.time() - t0, 2)
    return res


def replay_case(case: dict, judge, passes: int) -> list[dict]:
    text = case["text"]
    rin = cst.read(text)
    ob = R.observe(text, passes=passes)
    rout = cst.read(ob.out) if ob.out is not None else None
    keys = judge(ob, rin, rout)
    if ob.passthrough:
        keys = [{"effect": "valid-input-passed-through"}]
    return [{"key": dict(k), "detail": f"IN={text!r} OUT={ob.out!r} EXC={ob.exc_type}"}
            for k in keys]


def standard_plan(tier: str, seed: int, *, modes: list[str], n_random_quick: int,
                  n_random_thorough: int, grid: bool = True, adj: bool = True,
                  grid_classes=None, lead_ws_shards: int = 1) -> list[dict]:
    specs: list[dict] = []
    if grid:
        parts = 32
        for p in range(parts):
            s = {"kind": "grid", "part": p, "parts": parts}
            if grid_classes:
                s["classes"] = grid_classes
            specs.append(s)
    if adj:
        for p in range(4):
            specs.append({"kind": "adj", "part": p, "parts": 4})
    if grid:
        # multi-gap small-alphabet grid (see engines/rt.py:multi_items); quick takes every third cell
        mparts = 16
        for p in range(mparts):
            specs.append({"kind": "multi", "part": p, "parts": mparts, "stride": 3 if tier == "quick" else 1,
                          "cap": 1200 if tier == "quick" else 20000,
                          "max_minimise": 400 if tier == "quick" else 6000})
    total = n_random_quick if tier == "quick" else n_random_thorough
    per = 1250 if tier == "quick" else 5000
    nshards = max(1, total // per)
    for i in range(nshards):
        mode = modes[i % len(modes)]
        s = {"kind": "random", "seed": seed * 1000003 + i * 7919 + 17, "n": per, "mode": mode}
        if tier == "thorough":
            s["max_minimise"] = 2500
            s["depths"] = [2, 3, 4, 5, 6, 8]
            s["budgets"] = [20, 60, 150, 400, 1000]
        if i < lead_ws_shards:
            s["lead_ws"] = True
        specs.append(s)
    return specs
