"""C17 - imports resolve relative to the importing file, whatever the working directory."""

import os
import random
import shutil
import tempfile

from nmverif.checks import _editbase as B
from nmverif.monitor import audit
from nmverif.worker import wal

PROPERTY = "C17"
LEVEL = "exploration"
SHARD_TIMEOUT = 900
FLOORS = {"nontrivial": 600, "observed": {"cwd_kinds": 4, "spellings": 3, "hop_kinds": 4,
                                          "audited_opens": 1500}}
RULE = ("G-fs: scratch trees of 2-5 directories, import chains of 1-5 hops via ./x, x/y, ../x, "
        "../../x, absolute paths and parenthesised arguments; every file holds process-unique "
        "planted integers, decoy files with the same relative names are planted in the working "
        "directory and in the entry file's directory; x working directory {tree root, sibling, "
        "child, /, entry's directory} x entry spelling {relative, absolute, with .., via a symlink "
        "in the same directory}; parse_file(entry)[..] must return the planted value of the right "
        "file at every hop and the audit-hook log of `open` events must be exactly the expected "
        "hop sequence; non-path / <...> / missing-file arguments must raise TypeError / ValueError "
        "/ OSError; non-trivial = a lookup through at least one import hop; distinct by "
        "(layout, cwd, spelling) hash")
ASSUMPTIONS = [
    "the working directory is kept fixed between parse_file and the lookups (a relative entry spelling is relative to it)",
    "symlinked entries live in the same directory as their target (no ambiguity about 'the directory of the file')",
    "an entry spelled through a symlinked directory and `..` denotes the file that open() finds for that spelling (physical `..`)",
]

_UID = [1000]


def uid() -> int:
    _UID[0] += 1
    return _UID[0]


def build_tree(rng, root):
    """Create directories, a chain of files, decoys.  Returns a description."""
    ndirs = rng.choice([2, 3, 4, 5])
    dirs = ["."]
    for i in range(ndirs - 1):
        parent = rng.choice(dirs)
        d = os.path.normpath(os.path.join(parent, f"d{i}"))
        dirs.append(d)
    for d in dirs:
        os.makedirs(os.path.join(root, d), exist_ok=True)
    hops = rng.choice([1, 2, 2, 3, 4, 5])
    files = []  # (relative path from root, id)
    used = set()
    for i in range(hops + 1):
        d = rng.choice(dirs)
        name = f"f{i}_{rng.choice(['a', 'b', 'mod', 'pkg'])}.nix"
        rel = os.path.normpath(os.path.join(d, name))
        files.append([rel, uid()])
    # write files back to front
    hop_kinds = []
    relspecs = []
    for i in range(hops, -1, -1):
        rel, fid = files[i]
        here = os.path.dirname(os.path.join(root, rel))
        if i == hops:
            body = f"{{\n  id = {fid};\n  leaf = {uid()};\n}}\n"
            files[i].append(None)
        else:
            target_abs = os.path.join(root, files[i + 1][0])
            kind = rng.choice(["dot", "dot", "bare", "dotdot", "absolute", "paren", "let-paren"])
            relp = os.path.relpath(target_abs, here)
            if kind == "absolute":
                spec = target_abs
            elif kind == "bare":
                spec = relp if ("/" in relp and not relp.startswith("..")) else ("./" + relp if not relp.startswith("..") else relp)
                if spec.startswith("./"):
                    kind = "dot"
                elif spec.startswith(".."):
                    kind = "dotdot"
            elif kind == "dotdot":
                # go up and come back: ../<dirname>/<rel>
                parent = os.path.dirname(here)
                if here != root and os.path.commonpath([parent, root]) == root:
                    spec = "../" + os.path.relpath(target_abs, parent)
                    if spec.startswith("../.."):
                        kind = "dotdot2"
                else:
                    spec = "./" + relp if not relp.startswith("..") else relp
                    kind = "dot" if spec.startswith("./") else "dotdot"
            else:
                spec = "./" + relp if not relp.startswith("..") else relp
                if relp.startswith("../.."):
                    kind = "dotdot2" if kind not in ("paren", "let-paren") else kind
                elif relp.startswith(".."):
                    kind = "dotdot" if kind not in ("paren", "let-paren") else kind
            # let-paren: the path literal is the body of a let (the node is copied when the let is
            # lifted: the copy must still know which file it came from)
            text_spec = f"({spec})" if kind == "paren" else (f"(let x = 1; in {spec})" if kind == "let-paren" else spec)
            body = f"{{\n  id = {fid};\n  next = import {text_spec};\n  other = {uid()};\n}}\n"
            hop_kinds.append(kind)
            relspecs.append(spec)
            files[i].append(spec)
        with open(os.path.join(root, rel), "w") as fh:
            fh.write(body)
    return {"dirs": dirs, "files": files, "hops": hops, "hop_kinds": hop_kinds}


def plant_decoys(rng, root, tree, cwd_abs):
    """Same relative import targets under the cwd and under the entry's directory, other ids."""
    entry_dir = os.path.dirname(os.path.join(root, tree["files"][0][0]))
    real = {os.path.realpath(os.path.join(root, f[0])) for f in tree["files"]}
    n = 0
    for i, f in enumerate(tree["files"][:-1]):
        spec = f[2]
        if spec is None or os.path.isabs(spec):
            continue
        for base in (cwd_abs, entry_dir):
            cand = os.path.normpath(os.path.join(base, spec))
            if os.path.realpath(cand) in real:
                continue
            if not os.path.realpath(cand).startswith(os.path.realpath(root)):
                continue
            try:
                os.makedirs(os.path.dirname(cand), exist_ok=True)
                if not os.path.exists(cand):
                    with open(cand, "w") as fh:
                        fh.write(f"{{\n  id = {uid()};\n  next = {{ id = {uid()}; next = {{ id = 0; }}; }};\n  decoy = true;\n}}\n")
                    n += 1
            except OSError:
                pass
    return n


def plan(tier, seed):
    n_shards = 16 if tier == "quick" else 48
    return [{"seed": seed * 4447 + i * 15485867 + 53, "layouts": 80 if tier == "quick" else 600}
            for i in range(n_shards)]


def run_shard(spec):
    from nix_manipulator import parse_file
    rng = random.Random(spec["seed"])
    res = B.new_result()
    obs = res["observed"]
    obs.update({"cwd_kinds": {}, "spellings": {}, "hop_kinds": {}, "audited_opens": 0,
                "decoys_planted": 0, "error_cases": 0, "hops_followed": 0})
    nontriv = set()
    start_cwd = os.getcwd()
    scratch = tempfile.mkdtemp(prefix="nmverif-c17-")
    try:
        for li in range(spec["layouts"]):
            root = os.path.join(scratch, f"t{li}")
            os.makedirs(root)
            tree = build_tree(rng, root)
            for k in tree["hop_kinds"]:
                B.bump(obs["hop_kinds"], k)
            entry_rel = tree["files"][0][0]
            entry_abs = os.path.join(root, entry_rel)
            entry_dir = os.path.dirname(entry_abs)
            sib = os.path.join(scratch, f"sibling{li}")
            os.makedirs(sib, exist_ok=True)
            child = os.path.join(root, tree["dirs"][-1])
            cwds = {"root": root, "sibling": sib, "child": child, "slash": "/", "entry-dir": entry_dir}
            link = os.path.join(entry_dir, "entry_link.nix")
            try:
                os.symlink(os.path.basename(entry_abs), link)
            except OSError:
                link = None
            # a symlink to the entry's directory that lives somewhere else: `dirlink/..` is the parent
            # of the *real* directory (what open() does), not the directory holding the link
            dlink = os.path.join(sib, "dirlink")
            try:
                os.symlink(entry_dir, dlink)
            except OSError:
                dlink = None
            for cwd_kind, cwd in cwds.items():
                obs["decoys_planted"] += plant_decoys(rng, root, tree, cwd) if cwd != "/" else 0
                os.chdir(cwd)
                spellings = {"absolute": entry_abs, "relative": os.path.relpath(entry_abs, cwd)}
                if entry_dir != root:
                    spellings["dotdot"] = os.path.join(os.path.relpath(entry_dir, cwd), "..",
                                                       os.path.basename(entry_dir), os.path.basename(entry_abs))
                else:
                    top = next((d for d in tree["dirs"] if d != "." and os.sep not in d), None)
                    if top is not None:
                        spellings["dotdot"] = os.path.join(os.path.relpath(root, cwd), top, "..",
                                                           os.path.basename(entry_abs))
                if link:
                    spellings["symlink"] = os.path.relpath(link, cwd)
                if dlink:
                    via = os.path.join(os.path.relpath(dlink, cwd), "..", os.path.basename(entry_dir),
                                       os.path.basename(entry_abs))
                    if os.path.realpath(via) == os.path.realpath(entry_abs):
                        spellings["symlinked-dir-dotdot"] = via
                for sp_kind, sp in spellings.items():
                    wal(f"layout {spec['seed']}:{li} cwd={cwd_kind} spelling={sp_kind}")
                    res["evaluations"] += 1
                    B.bump(obs["cwd_kinds"], cwd_kind)
                    B.bump(obs["spellings"], sp_kind)
                    base = {"cwd": cwd_kind, "spelling": sp_kind}
                    case = {"root": root, "files": tree["files"], "cwd": cwd, "entry": sp}
                    expected_ids = [f[1] for f in tree["files"]]
                    expected_opens = [os.path.realpath(os.path.join(root, f[0])) for f in tree["files"]]
                    with audit.Recording() as rec:
                        try:
                            cur = parse_file(sp)
                            got_ids = [cur["id"].value if hasattr(cur["id"], "value") else cur["id"]]
                            for h in range(tree["hops"]):
                                cur = cur["next"]
                                v = cur["id"]
                                got_ids.append(v.value if hasattr(v, "value") else v)
                            err = None
                        except Exception as exc:  # noqa: BLE001
                            err = exc
                            got_ids = None
                    opens_raw = [os.path.realpath(p) for p in rec.events if p.endswith(".nix")]
                    obs["audited_opens"] += len(opens_raw)
                    # an Import re-parses its file on every lookup: collapse consecutive repeats
                    opens = [p for i, p in enumerate(opens_raw) if i == 0 or p != opens_raw[i - 1]]
                    if err is not None:
                        k = dict(base)
                        k.update({"effect": "lookup-raised", "exc": type(err).__name__,
                                  "hop_kinds": "+".join(sorted(set(tree["hop_kinds"])))})
                        B.record(res, k, case, f"{type(err).__name__}: {err}")
                        continue
                    obs["hops_followed"] += tree["hops"]
                    nontriv.add(B.h64(repr(tree["files"]) + cwd_kind + sp_kind))
                    if [int(x) for x in got_ids] != expected_ids:
                        wrong = next(i for i, (a, b) in enumerate(zip(got_ids, expected_ids)) if int(a) != b)
                        k = dict(base)
                        k.update({"effect": "wrong-file-read", "hop": str(wrong),
                                  "hop_kind": tree["hop_kinds"][wrong - 1] if wrong > 0 else "entry"})
                        B.record(res, k, case, f"got ids {got_ids} expected {expected_ids}")
                    elif opens != expected_opens:
                        k = dict(base)
                        k.update({"effect": "unexpected-files-opened"})
                        B.record(res, k, case, f"opened {opens} expected {expected_opens}")
                    elif tree["hops"] >= 2 and rng.random() < 0.35:
                        # history on the same document object: after a lookup, the entry's import is
                        # re-pointed (path literal edited in place) to a later file of the chain; the
                        # next lookup must read that file, and the text must show the new path
                        try:
                            doc = parse_file(sp)
                            first = doc["next"]["id"]
                            first = first.value if hasattr(first, "value") else first
                            tset = doc._resolve_target_set()
                            imp = next(b.value for b in tset.values if getattr(b, "name", None) == "next")
                            while not hasattr(imp, "argument") and hasattr(imp, "value"):
                                imp = imp.value
                            j = rng.randrange(2, len(tree["files"]))
                            new_rel = os.path.relpath(os.path.join(root, tree["files"][j][0]), entry_dir)
                            if not new_rel.startswith("."):
                                new_rel = "./" + new_rel
                            arg = imp.argument
                            while not hasattr(arg, "path") and hasattr(arg, "value"):
                                arg = arg.value
                            arg.path = new_rel
                            B.bump(obs, "retarget_histories")
                            got = doc["next"]["id"]
                            got = got.value if hasattr(got, "value") else got
                            if int(got) != tree["files"][j][1]:
                                k = dict(base)
                                k.update({"effect": "stale-target-after-path-edit"})
                                B.record(res, k, case, f"import re-pointed to {new_rel}: got id {got}, "
                                                       f"expected {tree['files'][j][1]} (first lookup {first})")
                            elif new_rel not in doc.rebuild():
                                k = dict(base)
                                k.update({"effect": "text-does-not-show-edited-path"})
                                B.record(res, k, case, doc.rebuild()[:300])
                        except (AttributeError, StopIteration, TypeError):
                            B.bump(obs, "retarget_not_applicable")
            os.chdir(start_cwd)
            # ---- error cases
            bad_dir = os.path.join(root, "errs")
            os.makedirs(bad_dir, exist_ok=True)
            cases = {
                "string-argument": ('{ x = import "foo.nix"; }', TypeError),
                "call-argument": ("{ x = import (f ./foo.nix); }", TypeError),
                "identifier-argument": ("{ x = import foo; }", TypeError),
                "angle-path": ("{ x = import <nixpkgs>; }", ValueError),
                "missing-file": ("{ x = import ./does-not-exist.nix; }", OSError),
                "missing-in-parent": ("{ x = import ../nope/none.nix; }", OSError),
            }
            for cname, (text, exc_type) in cases.items():
                p = os.path.join(bad_dir, cname + ".nix")
                with open(p, "w") as fh:
                    fh.write(text + "\n")
                # a decoy with the missing name in the cwd must not be picked up
                os.chdir(sib)
                try:
                    with open(os.path.join(sib, "does-not-exist.nix"), "w") as fh:
                        fh.write("{ k = 1; }\n")
                    res["evaluations"] += 1
                    obs["error_cases"] += 1
                    try:
                        got = parse_file(p)["x"]["k"]
                        B.record(res, {"effect": "bad-import-resolved", "case": cname}, {"file": p},
                                 f"returned {got!r}")
                    except exc_type:
                        pass
                    except Exception as exc:  # noqa: BLE001
                        B.record(res, {"effect": "wrong-exception-for-bad-import", "case": cname,
                                       "exc": type(exc).__name__}, {"file": p}, f"{type(exc).__name__}: {exc}")
                finally:
                    os.chdir(start_cwd)
            if len(res["samples"]) < 2:
                res["samples"].append({"files": tree["files"], "hop_kinds": tree["hop_kinds"]})
            shutil.rmtree(root, ignore_errors=True)
            shutil.rmtree(sib, ignore_errors=True)
    finally:
        os.chdir(start_cwd)
        shutil.rmtree(scratch, ignore_errors=True)
    res["nontrivial"] = sorted(nontriv)
    return res


def replay(case):
    return []  # the scratch tree is removed after the run; the witness records layout, cwd and entry spelling
