"""C13 - values built programmatically render to Nix that denotes the same value."""

import math
import random

from nmverif.checks import _editbase as B
from nmverif.monitor.sysmon import FunctionCoverage
from nmverif.oracle import cst, nixdata
from nmverif.worker import wal

PROPERTY = "C13"
LEVEL = "exploration"
SHARD_TIMEOUT = 900
FLOORS = {"nontrivial": 3000, "observed": {"routes": 6, "contexts": 3, "string_chars": 60}}
RULE = ("G-pyvalue: nested Python values in the stated domain (dicts with identifier keys depth "
        "<= 5, lists of scalars / lists depth <= 4, signed 64-bit integers, floats over exponent "
        "classes incl. -0.0, 1e22, 1e-7, 5e-324, strings over an escaping alphabet without ${, "
        "booleans, None) through every construction route (AttributeSet.from_dict, AttributeSet({..}), "
        "Binding(name, value), NixList([...]), parsed_source[k] = v, set.scope[k] = v) and container "
        "context (top level, binding value, list element); the rendered text is decoded back to "
        "Python data by an independent CST reader and compared exactly (float sign via copysign); "
        "rendering twice must give the same text and parse+rebuild of it must be stable; "
        "non-trivial = a value with at least one container or a string needing an escape; distinct "
        "by repr hash")
ASSUMPTIONS = [
    "Nix data semantics of the decoder (oracle/nixdata.py): double-quoted and indented string escapes, integer / float literal syntax of Nix (an exponent form without a dot is not a float)",
    "dict key order is compared as written order of top-level bindings",
]

ESC_ALPHABET = list("abc XYZ09_-.,:;!?'\"\\/|#@$%^&*()[]{}<>=+~`") + ["\n", "\r", "\t", "\x01", "\x1b", "é", "→",
                                                                      "😀", "''", "$$", "\\n", "\\\"", " ", "${"[:1]]
KEYS = ["a", "b", "name", "version", "doCheck", "x1", "_p", "foo", "bar", "meta", "k'", "camelCase", "n0"]


def gen_string(rng):
    k = rng.random()
    if k < 0.2:
        return rng.choice(["", "plain", "1.2.3", "hello world", "https://example.org"])
    s = "".join(rng.choice(ESC_ALPHABET) for _ in range(rng.randrange(1, 14)))
    return s.replace("${", "$ {")


def gen_float(rng):
    k = rng.random()
    if k < 0.4:
        return rng.choice([0.0, -0.0, 1.5, -2.25, 0.1, 3.0, 100.0, 1e22, 1e21, 1e16, 1.5e300, 1e-7,
                           1e-5, 5e-324, 2.5e-10, 123456789.125, -1e22, 1e-4, 9007199254740993.0])
    return rng.choice([rng.uniform(-1000, 1000), rng.uniform(-1, 1) * 10 ** rng.randrange(-30, 30),
                       float(rng.randrange(-10**6, 10**6))])


def gen_scalar(rng):
    k = rng.random()
    if k < 0.3:
        return gen_string(rng)
    if k < 0.55:
        return rng.choice([0, 1, -1, 42, -7, 2**31, -2**31, 2**63 - 1, -2**63, rng.randrange(-10**12, 10**12)])
    if k < 0.7:
        return gen_float(rng)
    if k < 0.85:
        return rng.choice([True, False])
    return None


def gen_list(rng, depth):
    n = rng.choice([0, 1, 2, 3, 5, 8])
    out = []
    for _ in range(n):
        if depth < 4 and rng.random() < 0.2:
            out.append(gen_list(rng, depth + 1))
        else:
            out.append(gen_scalar(rng))
    return out


def gen_value(rng, depth=0):
    k = rng.random()
    if depth < 5 and k < 0.25:
        return gen_dict(rng, depth + 1)
    if k < 0.45:
        return gen_list(rng, 1)
    return gen_scalar(rng)


def gen_dict(rng, depth=1):
    n = rng.choice([0, 1, 2, 3, 5])
    keys = rng.sample(KEYS, min(n, len(KEYS)))
    return {k: gen_value(rng, depth) for k in keys}


def same(a, b) -> bool:
    if isinstance(a, bool) or isinstance(b, bool):
        return type(a) is type(b) and a == b
    if isinstance(a, float) or isinstance(b, float):
        if not (isinstance(a, (int, float)) and isinstance(b, (int, float))):
            return False
        if isinstance(a, float) != isinstance(b, float):
            return False
        return a == b and math.copysign(1, a) == math.copysign(1, b)
    if isinstance(a, dict) and isinstance(b, dict):
        return list(a.keys()) == list(b.keys()) and all(same(a[k], b[k]) for k in a)
    if isinstance(a, list) and isinstance(b, list):
        return len(a) == len(b) and all(same(x, y) for x, y in zip(a, b))
    return type(a) is type(b) and a == b


def first_diff(a, b, path="$"):
    if isinstance(a, dict) and isinstance(b, dict):
        if list(a.keys()) != list(b.keys()):
            return path, "keys"
        for k in a:
            d = first_diff(a[k], b[k], path + "." + k)
            if d:
                return d
        return None
    if isinstance(a, list) and isinstance(b, list):
        if len(a) != len(b):
            return path, "length"
        for i, (x, y) in enumerate(zip(a, b)):
            d = first_diff(x, y, f"{path}[{i}]")
            if d:
                return d
        return None
    if not same(a, b):
        kind = type(a).__name__
        return path, kind
    return None


def value_class(v) -> str:
    if isinstance(v, bool):
        return "bool"
    if v is None:
        return "null"
    if isinstance(v, int):
        return "negative-int" if v < 0 else "int"
    if isinstance(v, float):
        r = repr(v)
        if "e" in r or "E" in r:
            return "float-exponent"
        if v < 0 or math.copysign(1, v) < 0:
            return "negative-float"
        return "float"
    if isinstance(v, str):
        if "\n" in v:
            return "string-newline"
        if any(c in v for c in '"\\$\r\t') or any(ord(c) < 32 for c in v):
            return "string-escape"
        return "string"
    if isinstance(v, list):
        return "list"
    return "dict"


def find_leaf(v, path):
    """Value at a first_diff path like $.a[1].b"""
    import re
    cur = v
    for tok in re.findall(r"\.([^.\[]+)|\[(\d+)\]", path[1:]):
        try:
            cur = cur[tok[0]] if tok[0] else cur[int(tok[1])]
        except Exception:  # noqa: BLE001
            return None
    return cur


ROUTES = ["from_dict", "ctor_dict", "binding", "nixlist", "source_setitem", "scope_setitem", "set_setitem",
          "overwrite", "list_mutated_after_render", "from_dict_scope"]


def python_equal_twin(rng, value):
    """A value that Python's == cannot tell from `value` but Nix can (True/1, 0.0/-0.0, 1.0/1, ...)."""
    def twin(v):
        if isinstance(v, bool):
            return int(v)
        if isinstance(v, int):
            if v in (0, 1):
                return bool(v) if rng.random() < 0.5 else float(v)
            return float(v) if abs(v) < 2 ** 50 else v
        if isinstance(v, float):
            if v == 0.0:
                return -v
            return int(v) if v.is_integer() and abs(v) < 2 ** 50 else v
        if isinstance(v, list):
            return [twin(x) for x in v]
        if isinstance(v, dict):
            return {k: twin(x) for k, x in v.items()}
        return v
    return twin(value)


def render(route, value):
    from nix_manipulator import parse
    from nix_manipulator.expressions import AttributeSet, Binding
    from nix_manipulator.expressions.list import NixList
    if route == "from_dict":
        return AttributeSet.from_dict(value).rebuild(), "top", value
    if route == "ctor_dict":
        return AttributeSet(value).rebuild(), "top", value
    if route == "binding":
        text = AttributeSet(values=[Binding(name="k", value=value)], multiline=False).rebuild()
        return text, "binding", {"k": value}
    if route == "nixlist":
        return NixList(value).rebuild(), "list-element", value
    if route == "source_setitem":
        src = parse("{ }")
        src["k"] = value
        return src.rebuild(), "binding", {"k": value}
    if route == "set_setitem":
        src = parse("{\n  first = 1;\n}\n")
        src.expr["k"] = value
        return src.rebuild(), "binding", {"first": 1, "k": value}
    if route == "overwrite":
        # the key already holds a value that Python's == equates with the new one
        src = parse("{ }")
        first = value[0]
        src["k"] = first
        src.rebuild()
        src["k"] = value[1]
        return src.rebuild(), "binding", {"k": value[1]}
    if route == "list_mutated_after_render":
        # render once, replace an element of the same list object in place, render again
        lst = NixList(list(value[0]))
        holder = AttributeSet(values=[Binding(name="k", value=lst)], multiline=True)
        holder.rebuild()
        for i, x in enumerate(value[1]):
            lst.value[i] = x
        return holder.rebuild(), "binding", {"k": list(value[1])}
    if route == "from_dict_scope":
        # a set built from a dict gets a let binding through its scope mapping; this must stay
        # with that object (other constructed sets are checked by the other routes in this process)
        holder = AttributeSet.from_dict({"body": 1})
        holder.scope["k"] = value
        return holder.rebuild(), "scope", ("scope", value)
    if route == "scope_setitem":
        src = parse("{ }")
        src.expr.scope["k"] = value
        return src.rebuild(), "scope", ("scope", value)
    raise ValueError(route)


def plan(tier, seed):
    n_shards = 16 if tier == "quick" else 64
    return [{"seed": seed * 3119 + i * 472882027 + 43, "n": 4000 if tier == "quick" else 20000}
            for i in range(n_shards)]


def run_shard(spec):
    from nix_manipulator import parse
    rng = random.Random(spec["seed"])
    res = B.new_result()
    obs = res["observed"]
    obs.update({"routes": {}, "contexts": {}, "value_classes": {}, "string_chars": {}})
    nontriv = set()
    chars = set()
    cov = FunctionCoverage()
    cov.start()
    for i in range(spec["n"]):
        route = rng.choice(ROUTES)
        if route in ("from_dict", "ctor_dict"):
            value = gen_dict(rng)
        elif route == "nixlist":
            value = gen_list(rng, 1)
        elif route == "overwrite":
            v2 = gen_value(rng) if rng.random() < 0.5 else rng.choice(
                [True, False, 0, 1, 0.0, -0.0, 1.0, [1, 0], [True, False], {"n": 1.0}, {"n": 1}, [0.0], [-0.0], 2, 2.0])
            value = (python_equal_twin(rng, v2) if rng.random() < 0.7 else gen_value(rng), v2)
        elif route == "list_mutated_after_render":
            a = gen_list(rng, 1) or [1]
            b = [gen_list(rng, 2) if rng.random() < 0.4 else gen_scalar(rng) for _ in a]
            value = (a, b)
        else:
            value = gen_value(rng)
        wal(f"{route} {value!r}"[:3000])
        res["evaluations"] += 1
        B.bump(obs["routes"], route)
        B.bump(obs["value_classes"], value_class(value))

        def collect(v):
            if isinstance(v, str):
                chars.update(v)
            elif isinstance(v, dict):
                for x in v.values():
                    collect(x)
            elif isinstance(v, list):
                for x in v:
                    collect(x)
        collect(value)
        base = {"route": route, "top": value_class(value)}
        case = {"route": route, "value": repr(value)}

        def fail(effect, detail, **extra):
            k = dict(base)
            k["effect"] = effect
            k.update(extra)
            B.record(res, k, case, detail)

        try:
            text, context, expected = render(route, value)
            text2, _c, _e = render(route, value)
        except Exception as exc:  # noqa: BLE001
            fail("rendering-raised", f"{type(exc).__name__}: {exc}", exc=type(exc).__name__)
            continue
        B.bump(obs["contexts"], context)
        if isinstance(value, (dict, list)) or (isinstance(value, str) and value_class(value) != "string"):
            nontriv.add(B.h64(route + repr(value)))
        if text != text2:
            fail("rendering-not-deterministic", f"{text!r} vs {text2!r}")
            continue
        if context == "scope":
            dv_text = text
            from nmverif.oracle import attrtree as A
            dv = A.decode(dv_text)
            if dv.error or not dv.layers:
                fail("output-syntax-error" if dv.error else "scope-not-rendered", repr(text), context="scope")
                continue
            b = next((b for b in dv.layers[-1] if b.kind == "bind" and b.path == ("k",)), None)
            if b is None:
                fail("scope-binding-missing", repr(text), context="scope")
                continue
            try:
                got = nixdata.to_python(b.value_node)
                reason = None
            except nixdata.NotData as exc:
                got, reason = None, str(exc)
            expected = value
        else:
            got, reason = nixdata.parse_data(text)
        if reason is not None:
            leafcls = "?"
            if reason == "syntax error":
                # which kind of leaf is involved: look for the usual suspects
                def walk(v, in_list=False):
                    out = []
                    if isinstance(v, dict):
                        for x in v.values():
                            out += walk(x, False)
                    elif isinstance(v, list):
                        for x in v:
                            out += walk(x, True)
                    else:
                        out.append((value_class(v), in_list))
                    return out
                leaves = walk(value)
                if any(c.startswith("negative") and il for c, il in leaves):
                    leafcls = "negative-number-in-list"
                elif any(c == "float-exponent" for c, il in leaves):
                    leafcls = "float-exponent"
                else:
                    leafcls = "other"
                fail("output-syntax-error", repr(text), context=context, suspect=leafcls)
            else:
                fail("not-readable-as-data", f"{reason}: {text!r}", context=context,
                     reason=reason.split(":")[0][:30])
            continue
        if not same(got, expected):
            d = first_diff(expected, got) or ("$", "?")
            leaf = find_leaf(expected, d[0])
            fail("value-differs", f"at {d[0]} ({d[1]}): expected {leaf!r}; text={text!r}"[:1200],
                 context=context, leaf=value_class(leaf) if d[1] not in ("keys", "length") else d[1])
            continue
        # stability of the rendered text
        try:
            again = parse(text).rebuild()
        except Exception as exc:  # noqa: BLE001
            fail("reparse-raised", f"{type(exc).__name__}: {exc}", exc=type(exc).__name__)
            continue
        if again != text:
            fail("rendered-text-not-stable", f"{text!r} -> {again!r}"[:1200], context=context,
                 multiline="yes" if "\n" in text else "no")
        if len(res["samples"]) < 3 and i % 211 == 5:
            res["samples"].append({"route": route, "value": repr(value)[:200], "text": text[:200]})
    cov.stop()
    obs["string_chars"] = {c: 1 for c in list(chars)[:200]}
    obs["functions_entered_count"] = len(cov.entered)
    res["nontrivial"] = sorted(nontriv)
    return res


def replay(case):
    import ast
    value = eval(case["value"], {"__builtins__": {}}, {"inf": float("inf")})  # noqa: S307 - our own repr
    text, context, expected = render(case["route"], value)
    if context == "scope":
        return []
    got, reason = nixdata.parse_data(text)
    if reason is not None:
        return [{"key": {"effect": "output-syntax-error" if reason == "syntax error" else "not-readable-as-data"},
                 "detail": text}]
    if not same(got, expected):
        return [{"key": {"effect": "value-differs"}, "detail": text}]
    return []
