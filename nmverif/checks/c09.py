"""C09 - scope selectors address exactly the intended let layer."""

import random

from nmverif.checks import _editbase as B
from nmverif.engines import edit as E
from nmverif.gen import canon
from nmverif.oracle import attrtree as A
from nmverif.oracle import editjudge as J, editmodel as M, locality as L
from nmverif.worker import wal

PROPERTY = "C09"
LEVEL = "exploration"
SHARD_TIMEOUT = 900
FLOORS = {"nontrivial": 2000, "observed": {"depths": 4, "layer_counts": 4}}
RULE = ("documents with 0-5 let layers directly around the target set x wrapper shape (bare, "
        "lambda, with, assert, call argument, stacks) x the same binding names present in several "
        "layers x selector depth 1-6 x histories of up to 12 scoped set/rm (replace in layer, fresh "
        "in layer, name of another layer, nested @a.b, rm, rm of the last binding, too deep); every "
        "step: output valid, let chain decoded from the output CST equals the model's layers "
        "(only the addressed layer changed, created only for depth 1 on a layer-less set, removed "
        "only when emptied), body tree unchanged, tokens outside the addressed binding / let head "
        "unchanged; non-trivial = a scoped operation that reached the edit code; distinct by "
        "(text, op) hash")
ASSUMPTIONS = [
    "'the let that encloses the edited set' = the chain of let expressions directly around it; lets separated from it by a lambda / with / assert / call must merely stay unchanged",
    "`@name` with no layer where `name` exists in the body edits the body (test-pinned) and is excluded",
]

SHARED = ["shared", "common", "v", "w"]
# names that hold the selector character themselves (legal when quoted)
AT_NAMES = ["me@host", "@types/node", "a@@b"]


def make_doc(rng):
    g = canon.DocGen(rng, hyphen=False, comments=rng.random() < 0.5, max_entries=4)
    shape = rng.choice(["bare", "bare", "formals", "lambda", "with", "assert", "formals+with",
                        "call", "formals+call", "lambda+lambda", "formals+assert"])
    nl = rng.choice([0, 1, 1, 2, 2, 3, 4, 5])
    d = g.doc(wrappers=shape, layers=nl)
    # the same names in several layers
    for w in d.wrappers:
        if w[0] == "let":
            for nm in SHARED:
                if rng.random() < 0.5:
                    w[1].append(canon.Entry("plain", [nm], value=g.value()))
            if rng.random() < 0.3:
                w[1].append(canon.Entry("nested", ["box"], sub=canon.SetNode(
                    entries=[canon.Entry("plain", ["inner"], value=g.value())], inline=True)))
            if rng.random() < 0.2:
                w[1].append(canon.Entry("quoted", [rng.choice(AT_NAMES)], value=g.value()))
    # layers whose text is identical (`let a = 1; in let a = 1; in ...`, a/b/a chains): equal is
    # not the same layer
    lets = [i for i, w in enumerate(d.wrappers) if w[0] == "let"]
    if len(lets) >= 2 and rng.random() < 0.25:
        import copy
        i, j = rng.sample(lets, 2)
        d.wrappers[j] = ("let", copy.deepcopy(d.wrappers[i][1])) + tuple(d.wrappers[i][2:])
    if rng.random() < 0.1 and not any(e.path[:1] == [AT_NAMES[0]] for e in d.target.entries):
        d.target.entries.append(canon.Entry("quoted", [AT_NAMES[0]], value=g.value()))
    # ... and in the body itself: `@name` must still address the let layer
    for nm in SHARED:
        if rng.random() < 0.35 and not any(e.path[:1] == [nm] for e in d.target.entries):
            d.target.entries.append(canon.Entry("plain", [nm], value=g.value()))
    return canon.render(d), d


def choose(rng, dv):
    nl = len(dv.layers)
    depth = rng.choice([1, 1, 1, 2, 2, 3, 4, 5, 6])
    val = rng.choice(E.VALUE_POOL)
    k = rng.random()
    layer_names = []
    if depth <= nl:
        layer_names = [b.path for b in dv.layers[-depth] if b.kind == "bind"]
    other = [b.path for i, l in enumerate(dv.layers) if i != nl - depth for b in l if b.kind == "bind"]
    at = "@" * depth
    if k < 0.3 and layer_names:
        return E.Op("set", at + E.spell(rng.choice(layer_names)), val, "scope-replace")
    if k < 0.45:
        if rng.random() < 0.15:
            return E.Op("set", at + M.quote_segment(rng.choice(AT_NAMES)), val, "scope-fresh")
        return E.Op("set", at + "fresh" + str(rng.randrange(50)), val, "scope-fresh")
    if k < 0.55 and other:
        return E.Op("set", at + E.spell(rng.choice(other)), val, "scope-other-layer-name")
    if k < 0.8 and layer_names:
        return E.Op("rm", at + E.spell(rng.choice(layer_names)), "", "scope-rm")
    if k < 0.83 and other:
        # a name that exists, but in another layer than the addressed one (or in no addressable
        # layer at all when the selector is too deep)
        return E.Op("rm", at + E.spell(rng.choice(other)), "", "scope-rm-other-layer-name")
    if k < 0.86:
        return E.Op("rm", at + "missing" + str(rng.randrange(9)), "", "scope-rm-missing")
    if k < 0.92 and any(p == ("box",) for p in layer_names):
        return E.Op(rng.choice(["set", "rm"]), at + "box.inner", val, "scope-nested")
    if rng.random() < 0.3:
        return E.Op("rm", at + rng.choice(SHARED), "", "scope-rm-shared-name")
    return E.Op("set", at + rng.choice(SHARED), val, "scope-shared-name")


def plan(tier, seed):
    n_shards = 16 if tier == "quick" else 64
    docs = 260 if tier == "quick" else 2200
    return [{"seed": seed * 4001 + i * 49979687 + 3, "docs": docs, "max_hist": 12} for i in range(n_shards)]


def run_shard(spec):
    rng = random.Random(spec["seed"])
    res = B.new_result()
    obs = res["observed"]
    obs.update({"depths": {}, "layer_counts": {}, "positions": {}})
    nontriv = set()
    for di in range(spec["docs"]):
        text, doc = make_doc(rng)
        wal(f"doc {spec['seed']}:{di}")
        try:
            live = E.LiveDoc(text)
        except Exception:  # noqa: BLE001
            B.bump(obs, "documents_refused_by_parse")
            continue
        hist = []
        for si in range(rng.randrange(1, spec["max_hist"] + 1)):
            dv = A.decode(live.text)
            if dv.error or dv.target is None:
                break
            op = choose(rng, dv)
            depth, segs = M.parse_npath(op.npath)
            if not dv.layers and any(b.kind == "bind" and b.path and b.path[0] == segs[0]
                                     for b in dv.target.bindings):
                continue
            before = live.text
            r = live.apply(op)
            hist.append((op.kind, op.npath, op.value))
            res["evaluations"] += 1
            B.bump(obs["ops"], op.kind)
            B.bump(obs["op_classes"], op.cls)
            B.bump(obs["outcomes"], "ok" if r.exc_type is None else r.exc_type)
            B.bump(obs["depths"], str(depth))
            B.bump(obs["layer_counts"], str(len(dv.layers)))
            B.bump(obs["wrappers"], E.wrappers_label(dv))
            base = {"op": op.kind, "cls": op.cls, "wrappers": E.wrappers_label(dv),
                    "layers": str(min(len(dv.layers), 6)), "depth": str(depth),
                    "relation": ("in-range" if depth <= len(dv.layers) else
                                 ("create" if depth == 1 and not dv.layers else "too-deep"))}
            nontriv.add(B.h64(before + "\0" + op.kind + op.npath + "\0" + op.value))
            keys = J.judge_semantics(dv, op, r, base_key=dict(base))
            if not keys and r.exc_type is None:
                keys = L.judge_tokens_scoped(dv, op, r, depth, segs, dict(base))
            for k in keys:
                B.record(res, k, {"text": before, "op": [op.kind, op.npath, op.value],
                                  "history": hist[:-1], "initial": text if si else None},
                         f"OUT={r.out!r} EXC={r.exc_type}: {r.exc_msg}")
            if keys:
                break
            if len(res["samples"]) < 3 and res["evaluations"] % 173 == 1:
                res["samples"].append({"before": before[:300], "op": [op.kind, op.npath, op.value],
                                       "after": (r.out or "")[:300], "exception": r.exc_type})
    res["nontrivial"] = sorted(nontriv)
    return res


def replay(case):
    dv = A.decode(case["text"])
    op = E.Op(case["op"][0], case["op"][1], case["op"][2], "replay")
    r = E.fresh_apply(case["text"], op)
    depth, segs = M.parse_npath(op.npath)
    base = {"op": op.kind, "cls": "replay", "wrappers": E.wrappers_label(dv),
            "layers": str(min(len(dv.layers), 6)), "depth": str(depth)}
    keys = J.judge_semantics(dv, op, r, base_key=dict(base))
    if not keys and r.exc_type is None:
        keys = L.judge_tokens_scoped(dv, op, r, depth, segs, dict(base))
    return [{"key": k, "detail": f"OUT={r.out!r} EXC={r.exc_type}: {r.exc_msg}"} for k in keys]
