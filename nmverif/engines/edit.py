"""Edit engine: documents, operations, execution against the real library, judgements."""

from __future__ import annotations

import random
import re
from dataclasses import dataclass, field

from nmverif.gen import canon
from nmverif.oracle import attrtree as A
from nmverif.oracle import cst, editmodel as M
from nmverif.worker import quarantined, wal_text

VALUE_POOL = ['"9.9.9"', "42", "true", "null", "fresh", "fresh.attr", "fresh 1", "[ ]", "[ u v ]",
              "{ }", "./new.nix", '"a b"', "-7", "u + 1", "!u"]
MULTILINE_VALUES = ["[\n  u\n  v\n]", "{\n  k = 1;\n  m = 2;\n}", "''\n  text\n''"]
# values that carry comments of their own (the VALUE argument is any expression text)
COMMENTED_VALUES = ["2 # vc1", "/* vc2 */ 2", "# vc3\n2", "2 /* vc4 */", "[ u ] # vc5", "{ } # vc6"]
BAD_VALUES = ["", "   ", "# only a comment", "1 2 ;", "1 +", "{ a = ", "a b )", "1; 2", "let x = 1;", "[ 1", "\n"]
MALFORMED_PATHS = ["", ".", "a..b", ".a", "a.", 'a"b"', '"a', 'a."b', '"a\\', "a-b", "1a", "a b", "'a",
                   "a.$", "@", "@@", '"a"b', "a.\"b\"c", "a,b", "a;",
                   # quoted segments that touch each other (no dot between them), also behind an empty one
                   '"""a"', 'a."""b"', '""""', '"a""b"', '"a"""', '@"""a"']


@dataclass
class Op:
    kind: str          # set | rm
    npath: str
    value: str = ""
    cls: str = ""      # path class label (generator's intent, used in keys)


@dataclass
class OpResult:
    op: Op
    before: str
    out: str | None = None
    exc_type: str | None = None
    exc_msg: str = ""
    after_rebuild: str | None = None   # source.rebuild() after the call (same object)
    after_exc: str | None = None
    exc_mro: list = field(default_factory=list)
    parse_failed: bool = False         # the library refused to parse `before`


def all_paths(tree: A.TNode, prefix=()):
    """Yield (path tuple, node) for every node below the root."""
    for k, v in tree.children.items():
        p = prefix + (k,)
        yield p, v
        if v.kind == "set":
            yield from all_paths(v, p)


def spell(path) -> str:
    return ".".join(M.quote_segment(s) for s in path)


def choose_ops(rng: random.Random, dv: A.DocView, n: int, *, scoped: bool = True,
               failing: float = 0.25, fresh_names=("zz", "yy", "ww", "newKey", "q'")) -> list[Op]:
    """A mixed batch of operations for one document state."""
    ops: list[Op] = []
    if dv.target is None:
        return ops
    tree = A.merge(dv.target.bindings)
    paths = [(p, nd) for p, nd in all_paths(tree) if not any(s.startswith("\x00dyn:") for s in p)]
    leaves = [p for p, nd in paths if nd.kind == "leaf" and not (nd.tokens and nd.tokens[0][0] == "inherit")]
    explicit_sets = [p for p, nd in paths if nd.kind == "set" and nd.explicit and not nd.via_attrpath]
    attr_sets = [p for p, nd in paths if nd.kind == "set" and nd.via_attrpath and not nd.explicit]
    inherited = [p for p, nd in paths if nd.kind == "leaf" and nd.tokens and nd.tokens[0][0] == "inherit"]
    mixed_sets = [p for p, nd in paths if nd.kind == "set" and nd.via_attrpath and nd.explicit]
    for _ in range(n):
        k = rng.random()
        kv = rng.random()
        val = rng.choice(VALUE_POOL if kv < 0.80 else (MULTILINE_VALUES if kv < 0.93 else COMMENTED_VALUES))
        if kv >= 0.93:
            # the value's own comment gets a mark that is unique to this operation
            val = re.sub(r"vc\d+", f"vc{rng.randrange(10 ** 7)}", val)
        fresh = rng.choice(fresh_names) + str(rng.randrange(100))
        if k < 0.03 and inherited:
            # a name that an `inherit` clause defines: overwriting it must be refused
            p = rng.choice(inherited)
            ops.append(Op(rng.choice(["set", "set", "rm"]), spell(p), val, "inherited-name"))
        elif k < 0.22 and leaves:
            p = rng.choice(leaves)
            ops.append(Op("set", spell(p), val, "replace-leaf"))
        elif k < 0.34:
            ops.append(Op("set", fresh, val, "fresh-1"))
        elif k < 0.42 and explicit_sets:
            p = rng.choice(explicit_sets)
            ops.append(Op("set", spell(p + (fresh,)), val, "fresh-in-explicit"))
        elif k < 0.50 and attr_sets:
            p = rng.choice(attr_sets)
            ops.append(Op("set", spell(p + (fresh,)), val, "fresh-in-attrpath"))
        elif k < 0.56:
            ops.append(Op("set", spell((fresh, "deep", "er")[: rng.choice([2, 3])]), val, "fresh-deep"))
        elif k < 0.66 and leaves:
            p = rng.choice(leaves)
            ops.append(Op("rm", spell(p), "", "rm-leaf"))
        elif k < 0.70 and explicit_sets:
            ops.append(Op("rm", spell(rng.choice(explicit_sets)), "", "rm-explicit-set"))
        elif k < 0.74 and explicit_sets:
            ops.append(Op("set", spell(rng.choice(explicit_sets)), val, "replace-explicit-set"))
        elif k < 0.74 + failing * 0.5:
            # operations expected to be refused
            kk = rng.random()
            if kk < 0.2:
                ops.append(Op("rm", fresh, "", "rm-missing"))
            elif kk < 0.35 and leaves:
                p = rng.choice(leaves)
                ops.append(Op("set", spell(p + (fresh,)), val, "through-leaf"))
            elif kk < 0.45 and leaves:
                p = rng.choice(leaves)
                ops.append(Op("rm", spell(p + (fresh,)), "", "rm-through-leaf"))
            elif kk < 0.42 and inherited:
                # a path through a name that exists only through `inherit`: not a set
                p = rng.choice(inherited)
                ops.append(Op(rng.choice(["set", "set", "rm"]), spell(p + (fresh,)), val, "through-inherited"))
            elif kk < 0.5 and mixed_sets:
                ops.append(Op("set", spell(rng.choice(mixed_sets)), val, "overwrite-mixed-root"))
            elif kk < 0.6 and attr_sets:
                ops.append(Op("set", spell(rng.choice(attr_sets)), val, "overwrite-attrpath-root"))
            elif kk < 0.7 and attr_sets:
                ops.append(Op("rm", spell(rng.choice(attr_sets)), "", "rm-attrpath-root"))
            elif kk < 0.8:
                ops.append(Op(rng.choice(["set", "rm"]), rng.choice(MALFORMED_PATHS), val, "malformed-path"))
            elif kk < 0.9:
                ops.append(Op("set", fresh, rng.choice(BAD_VALUES), "bad-value"))
            else:
                ops.append(Op("set", "@" * rng.choice([2, 3, 5]) + fresh, val, "scope-too-deep"))
        elif scoped:
            depth = rng.choice([1, 1, 1, 2, 3])
            layer_names = []
            if dv.layers and depth <= len(dv.layers):
                lt = A.merge(dv.layers[-depth])
                layer_names = [p for p, nd in all_paths(lt) if nd.kind == "leaf"]
            kk = rng.random()
            if kk < 0.4 and layer_names:
                ops.append(Op("set", "@" * depth + spell(rng.choice(layer_names)), val, "scope-replace"))
            elif kk < 0.65 and layer_names:
                ops.append(Op("rm", "@" * depth + spell(rng.choice(layer_names)), "", "scope-rm"))
            else:
                ops.append(Op("set", "@" * depth + "s_" + fresh.replace("'", ""), val, "scope-fresh"))
        else:
            ops.append(Op("set", fresh, val, "fresh-1"))
    return ops


class LiveDoc:
    """One library document object with a boundary recorder around set/rm."""

    def __init__(self, text: str):
        from nix_manipulator import parse
        self.text = text
        wal_text(text)
        self.source = parse(text)
        self.calls = 0

    def rebuild(self) -> str:
        return self.source.rebuild()

    def apply(self, op: Op) -> OpResult:
        from nix_manipulator.cli.manipulations import remove_value, set_value
        res = OpResult(op, self.text)
        self.calls += 1
        try:
            if op.kind == "set":
                res.out = set_value(self.source, op.npath, op.value)
            else:
                res.out = remove_value(self.source, op.npath)
        except RecursionError as exc:
            res.exc_type = "RecursionError"
            res.exc_msg = str(exc)[:160]
        except Exception as exc:  # noqa: BLE001 - exceptions are events
            res.exc_type = type(exc).__name__
            res.exc_msg = str(exc)[:200]
            res.exc_mro = [c.__name__ for c in type(exc).__mro__]
        try:
            res.after_rebuild = self.source.rebuild()
        except Exception as exc:  # noqa: BLE001
            res.after_exc = f"{type(exc).__name__}: {str(exc)[:120]}"
        if res.out is not None:
            self.text = res.out
        return res


def fresh_apply(text: str, op: Op) -> OpResult:
    try:
        live = LiveDoc(text)
    except RecursionError as exc:
        res = OpResult(op, text)
        res.exc_type, res.exc_msg, res.exc_mro = "RecursionError", str(exc)[:160], ["RecursionError"]
        res.parse_failed = True
        return res
    except Exception as exc:  # noqa: BLE001 - the library refusing to read the text is an event
        res = OpResult(op, text)
        res.exc_type = type(exc).__name__
        res.exc_msg = "parse: " + str(exc)[:190]
        res.exc_mro = [c.__name__ for c in type(exc).__mro__]
        res.parse_failed = True
        return res
    return live.apply(op)


def is_documented(res: OpResult) -> bool:
    mro = getattr(res, "exc_mro", [res.exc_type])
    return "KeyError" in mro or "ValueError" in mro


def wrappers_label(dv: A.DocView) -> str:
    ws = dv.wrappers or ["bare"]
    return "+".join(ws)


# ------------------------------------------------------------------ doc sources
def canonical_doc(rng: random.Random, **kw):
    g = canon.DocGen(rng, **kw)
    d = g.doc()
    return canon.render(d), d


def call_argument_on_own_line(text: str) -> str | None:
    """`f {` ... `}` at column 0 (a call whose argument is the target set) rewritten with the
    argument on its own line, indented: `f` / `  {` / ... / `  }`.  None when not that shape."""
    import re
    lines = text.split("\n")
    last = max((i for i, ln in enumerate(lines) if ln.strip()), default=None)
    if last is None or lines[last] != "}":
        return None
    head = None
    for i, ln in enumerate(lines[:last]):
        m = re.match(r"^([A-Za-z_][\w.']*) ((?:rec )?\{)$", ln)
        if m and m.group(1) not in ("let", "in", "rec"):
            head = (i, m)
    if head is None:
        return None
    i, m = head
    if any("''" in ln for ln in lines[i:last]):
        return None
    new = lines[:i] + [m.group(1), "  " + m.group(2)] + [("  " + ln) if ln.strip() else ln for ln in lines[i + 1:last + 1]] \
        + lines[last + 1:]
    return "\n".join(new)


def noncanonical_variant(rng: random.Random, text: str) -> str:
    """Same document with non-RFC whitespace (still line comments only)."""
    if rng.random() < 0.3:
        alt = call_argument_on_own_line(text)
        if alt is not None and not cst.has_error(alt):
            text = alt
    out = []
    for line in text.split("\n"):
        if rng.random() < 0.25 and line.strip() and not line.lstrip().startswith("#") \
                and "''" not in line:
            line = line.replace(" = ", rng.choice(["=", "  =  ", " =\t"]), 1)
        if rng.random() < 0.15 and line.strip() and out:
            # (never the first line: a file starting with whitespace is KF-C01-leading-whitespace)
            line = " " * rng.choice([1, 3, 5]) + line.lstrip()
        out.append(line)
        if rng.random() < 0.05:
            out.append("")
    return "\n".join(out)
