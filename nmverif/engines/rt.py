"""Round-trip workload engine: turns a shard spec into Case objects.

A Case knows its non-minimal gaps and can re-render itself with only a subset
of them kept, which is what the witness minimiser (ddmin over gaps) needs in
order to attribute a failure to the one or two gaps that cause it.
"""

from __future__ import annotations

import random

from nmverif.gen import grid, nixgen, trivia
from nmverif.oracle import cst

CLASS_GROUP = {
    "min": "min", "tight": "tight", "sp": "space", "sp2": "spaces", "tab": "tab",
    "nl": "newline", "nl_ind": "newline", "crlf": "crlf", "trail_ws": "trailing-ws",
    "blank": "blank", "blank2": "blank2", "crlf_blank": "crlf",
    "eol_c_blank": "line-eol", "own_c_blank": "line-own",
    "eol_c_crlf": "line-eol", "eol_c_crlf_blank": "line-eol", "blk_edge": "block-inline",
    "eol_c": "line-eol", "nosp_c": "line-eol", "own_c": "line-own", "own_c_ind": "line-own",
    "blank_own_c": "line-own", "two_c": "line-own", "uni_c": "line-own", "shebang_c": "line-own",
    "inl_blk": "block-inline", "inl_blk_tight": "block-inline", "lead_blk": "block-inline",
    "ctl_c": "line-eol", "ctl_blk": "block-inline", "two_blk": "block-inline", "three_blk": "block-inline", "two_blk_eol_c": "line-eol", "blk_eol_c": "line-eol", "own_blk_eol_c": "line-own",
    "eol_blk": "block-eol", "own_blk": "block-own", "doc": "block-own", "ml_blk": "block-ml",
}


# finer description of a class inside its group (a KF pattern that does not mention
# `variant` covers every variant of the group)
CLASS_VARIANT = {
    "crlf_blank": "crlf-blank-line", "eol_c_blank": "blank-line-after", "own_c_blank": "blank-line-after",
    "eol_c_crlf": "crlf", "eol_c_crlf_blank": "crlf-blank-line-after", "blk_edge": "wording-ends-in-closer-chars",
    "ctl_c": "python-only-line-boundary-char", "ctl_blk": "python-only-line-boundary-char",
    "two_blk": "two-comments-on-one-line", "blk_eol_c": "two-comments-on-one-line",
    "own_blk_eol_c": "two-comments-on-one-line", "three_blk": "two-comments-on-one-line", "two_blk_eol_c": "two-comments-on-one-line",
}


class Case:
    __slots__ = ("id", "text", "layer", "meta", "gaps", "_render")

    def __init__(self, cid, text, layer, meta=None, gaps=None, render=None):
        self.id = cid
        self.text = text
        self.layer = layer
        self.meta = meta or {}
        # gaps: list of (gap_id, cls) for every non-minimal gap
        self.gaps = gaps or []
        self._render = render

    def rerender(self, keep: set) -> str | None:
        """Text with only the gaps in `keep` left non-minimal (None if not possible)."""
        if self._render is None:
            return None
        return self._render(keep)


def _locate_gap(text: str, rd: cst.Reading, start: int, end: int) -> dict:
    """Describe a gap [start,end) of the text by its CST neighbourhood."""
    prev = None
    prev2 = None
    nxt = None
    for lf in rd.leaves:
        if lf.type == "comment":
            continue
        if lf.end <= start:
            prev2 = prev
            prev = lf
        elif lf.start >= end and nxt is None:
            nxt = lf
            break
    lca = "source_code"
    lca_parent = None
    if prev is not None and nxt is not None:
        anc = set()
        n = prev.node
        while n is not None:
            anc.add(n.id)
            n = n.parent
        n = nxt.node
        while n is not None:
            if n.id in anc:
                lca = n.type
                lca_parent = n.parent.type if n.parent is not None else None
                break
            n = n.parent
    d = {"prev": prev.type if prev is not None else "", "next": nxt.type if nxt is not None else "",
         "lca": lca, "prev2": prev2.type if prev2 is not None else ""}
    if lca == "attrpath" and lca_parent:
        # whose path it is: a binding name, a selection, a has-attr test, an inherit
        d["path_of"] = lca_parent
    return d


class RandomProgram:
    def __init__(self, tokens, glue, classes, gaps, lead, lead_cls, trail, trail_cls):
        self.tokens = tokens
        self.glue = glue
        self.classes = classes
        self.gaps = gaps
        self.lead = lead
        self.lead_cls = lead_cls
        self.trail = trail
        self.trail_cls = trail_cls

    def offsets(self, keep=None):
        """Render; return text and {gap_id: (start,end)}."""
        parts = []
        pos = 0
        offs = {}
        lead = self.lead if (keep is None or -1 in keep) else ""
        parts.append(lead)
        offs[-1] = (0, len(lead.encode()))
        pos = len(lead.encode())
        for i, tok in enumerate(self.tokens):
            if i:
                gi = i - 1
                if self.glue[gi]:
                    g = ""
                elif keep is None or gi in keep:
                    g = self.gaps[gi]
                else:
                    g = trivia.minimal_gap(self.tokens[gi], tok)
                    if self.classes[gi] in ("min",):
                        g = self.gaps[gi]
                gb = len(g.encode())
                offs[gi] = (pos, pos + gb)
                pos += gb
                parts.append(g)
            parts.append(tok)
            pos += len(tok.encode())
        trail = self.trail if (keep is None or -2 in keep) else ""
        offs[-2] = (pos, pos + len(trail.encode()))
        parts.append(trail)
        return "".join(parts), offs

    def nonminimal(self):
        out = []
        if self.lead:
            out.append((-1, self.lead_cls))
        for i, cls in enumerate(self.classes):
            if cls not in ("min", "glue"):
                out.append((i, cls))
        if self.trail:
            out.append((-2, self.trail_cls))
        return out


def describe_gaps(case: Case, keep: set, text: str) -> list[dict]:
    """Gap descriptors (class group + CST neighbourhood) for the kept gaps."""
    prog = case.meta.get("_prog")
    out = []
    if prog is None:
        ref = case.meta.get("_ref")
        if ref is None or not keep:
            return out
        a = ref.encode()
        b = text.encode()
        n = min(len(a), len(b))
        pre = 0
        while pre < n and a[pre] == b[pre]:
            pre += 1
        suf = 0
        while suf < n - pre and a[len(a) - 1 - suf] == b[len(b) - 1 - suf]:
            suf += 1
        rd = cst.read(text)
        d = _locate_gap(text, rd, pre, len(b) - suf)
        cls = case.gaps[0][1] if case.gaps else "?"
        d["cls"] = CLASS_GROUP.get(cls, cls)
        if cls in CLASS_VARIANT:
            d["variant"] = CLASS_VARIANT[cls]
        if d["prev"] == "":
            d["lead_ws"] = "yes" if text[:1] in (" ", "\t", "\r", "\n", "\ufeff") else "no"
        return [d]
    _t, offs = prog.offsets(keep)
    rd = cst.read(text)
    cls_of = dict(case.gaps)
    for gid in sorted(keep, key=lambda g: (g < 0 and g == -2, g)):
        s, e = offs[gid]
        d = _locate_gap(text, rd, s, e)
        d["cls"] = CLASS_GROUP.get(cls_of.get(gid, "?"), cls_of.get(gid, "?"))
        if cls_of.get(gid) in CLASS_VARIANT:
            d["variant"] = CLASS_VARIANT[cls_of[gid]]
        if gid == -1:
            d["lead_ws"] = "yes" if text[:1] in (" ", "\t", "\r", "\n", "\ufeff") else "no"
        out.append(d)
    return out


def grid_items(part: int, parts: int, classes=None):
    for n, (tid, cid, gi, cls) in enumerate(grid.enumerate_cells(classes=classes)):
        if n % parts != part:
            continue
        built = grid.build_cell(tid, cid, gi, cls)
        cid_full = f"grid:{tid}:{cid}:{gi}:{cls}"
        if built is None:
            yield Case(cid_full, None, "grid")
            continue
        text, ncom = built
        ref_text = grid.render_cell(tid, cid, gi, None)[0]

        def render(keep, text=text, ref_text=ref_text):
            return text if keep else ref_text

        yield Case(cid_full, text, "grid",
                   {"tpl": tid, "ctx": cid, "gap": str(gi), "cls": cls, "_ref": ref_text},
                   [(0, cls)], render)


MULTI_ALPHABET = ("min", "nl_ind", "own_c")
MULTI_CONTEXTS = (("top", [], []), ("binding", ["{", "k", "="], [";", "}"]))


def multi_items(part: int, parts: int, alphabet=MULTI_ALPHABET, cap: int = 1200, stride: int = 1):
    """Exhaustive small-alphabet grid: every free gap of every template takes every class of a
    three-letter alphabet (tight / newline+indent / own-line comment) independently, at top level
    and as a binding value; templates with more than `cap` combinations are sampled with a
    template-stable generator.  Finds what needs two or three cooperating gaps."""
    import itertools
    n = -1
    for tid, level, tpl in grid.TEMPLATES:
        tokens, _gaps, glue = grid.parse_template(tpl)
        free = [i for i, g in enumerate(glue) if not g]
        total = len(alphabet) ** len(free)
        if total <= cap:
            combos = itertools.product(alphabet, repeat=len(free))
        else:
            rng = grid._stable_rng("multi", tid)
            combos = (tuple(rng.choice(alphabet) for _ in free) for _ in range(cap))
        for combo in combos:
            if all(c == "min" for c in combo):
                continue
            for cname, pre, suf in MULTI_CONTEXTS:
                n += 1
                if n % parts != part or (n // parts) % stride:
                    continue
                toks = list(pre) + list(tokens) + list(suf)
                gl = [False] * len(pre) + list(glue) + [False] * len(suf)
                gl = gl[: len(toks) - 1]
                serial = trivia.Serial()
                rng2 = grid._stable_rng("multi", tid, combo, cname)
                classes, gaps = [], []
                fi = 0
                for i in range(len(toks) - 1):
                    ti = i - len(pre)
                    if gl[i]:
                        classes.append("glue")
                        gaps.append("")
                    elif 0 <= ti < len(tokens) - 1 and ti in free:
                        cls = combo[free.index(ti)]
                        classes.append(cls)
                        gaps.append(trivia.gap_text(cls, rng2, serial, i, toks[i], toks[i + 1]))
                    else:
                        classes.append("min")
                        gaps.append(trivia.minimal_gap(toks[i], toks[i + 1]) if (toks[i] not in ("=",) and toks[i + 1] not in (";",)) else (" " if toks[i] == "=" else ""))
                prog = RandomProgram(toks, gl, classes, gaps, "", "min", "\n", "nl")
                text, _ = prog.offsets(None)
                cid = f"multi:{tid}:{cname}:{'.'.join(combo)}"
                ref = cst.read(trivia.reference_text(toks, gl))
                rd = cst.read(text)
                if ref.error or rd.error or rd.tokens != ref.tokens or len(rd.comments) != serial.n:
                    yield Case(cid, None, "grid-multi")
                    continue

                def render(keep, prog=prog):
                    return prog.offsets(keep)[0]

                yield Case(cid, text, "grid-multi", {"tpl": tid, "ctx": cname, "_prog": prog},
                           prog.nonminimal(), render)


def adj_items(part: int, parts: int):
    for n, (cid, text) in enumerate(grid.adjacency_cases()):
        if n % parts != part:
            continue
        if cst.has_error(text):
            yield Case(cid, None, "adj")
            continue
        yield Case(cid, text, "adj")


def random_items(seed: int, n: int, mode: str, depths=(2, 3, 4, 5), budgets=(20, 60, 150),
                 densities=(0.05, 0.15, 0.4), edge_p: float = 0.25, rare: bool = True,
                 lead_ws: bool = False):
    rng = random.Random(seed)
    for i in range(n):
        toks, glue = nixgen.generate(rng, max_depth=rng.choice(depths),
                                     budget=rng.choice(budgets), rare=rare)
        r = trivia.choose_and_render(toks, glue, rng, mode, density=rng.choice(densities),
                                     edge_p=edge_p)
        cid = f"rnd:{mode}:{seed}:{i}"
        if r is None:
            yield Case(cid, None, "random")
            continue
        lead = r.lead
        lead_cls = r.lead_cls
        if not lead_ws and lead.strip(" \t\r\n") == "":
            lead = ""
        elif not lead_ws:
            lead = lead.lstrip(" \t\r\n")
        if lead_ws and rng.random() < 0.12:
            # a byte order mark in front of the file: the grammar skips it like whitespace
            lead = "\ufeff" + lead
        prog = RandomProgram(toks, glue, r.classes, r.gaps, lead, lead_cls, r.trail, r.trail_cls)
        text, _ = prog.offsets(None)

        def render(keep, prog=prog):
            return prog.offsets(keep)[0]

        yield Case(cid, text, "random", {"mode": mode, "_prog": prog}, prog.nonminimal(), render)


def items(spec: dict):
    kind = spec["kind"]
    if kind == "grid":
        return grid_items(spec["part"], spec["parts"], spec.get("classes"))
    if kind == "adj":
        return adj_items(spec["part"], spec["parts"])
    if kind == "multi":
        return multi_items(spec["part"], spec["parts"], cap=spec.get("cap", 1200), stride=spec.get("stride", 1))
    if kind == "random":
        return random_items(spec["seed"], spec["n"], spec["mode"],
                            depths=tuple(spec.get("depths", (2, 3, 4, 5))),
                            budgets=tuple(spec.get("budgets", (20, 60, 150))),
                            densities=tuple(spec.get("densities", (0.05, 0.15, 0.4))),
                            rare=spec.get("rare", True), lead_ws=spec.get("lead_ws", False))
    raise ValueError(kind)
