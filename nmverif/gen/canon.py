"""G-canon / G-doc: abstract editable documents and their RFC-0166 canonical rendering.

Only layouts with RFC / nixfmt provenance are emitted (table below; every row
names the RFC section of docs/RFC-0166-nix-formatting.md and a certified
literal from tests/test_reproduce_simple.py or docs/*.md).

| idiom                  | layout                                           | provenance |
|------------------------|--------------------------------------------------|------------|
| header comment         | `# ...` lines at column 0                        | Comments; test_cli_test_issue_13_leading_comment_regression |
| formals lambda         | `{ a, b }:` newline body                         | Function declaration; test_function_definition_expression |
| identifier lambda      | `a: b: body`                                     | Function declaration; test_function_definition_single_line |
| let block              | let / +2 bindings / in / body                    | let-in; docs/cli.md |
| call head              | `f {` ... `}`, `f rec {`                         | Function application; test_function_calls_function |
| expanded set           | one binding per line, +2, `}` aligned            | Attribute sets; test_rebuild_explicit_nested_set |
| inline set             | `{ }`, `{ a = v; }`                              | docs/cli.md examples |
| attrpath bindings      | `a.b = v;`                                       | Bindings; test_rebuild_nested_set |
| inherit                | `inherit a b;`, `inherit (x) a b;`               | inherit; test_inherit_from |
| lists                  | `[ ]`, `[ x y ]`, expanded one per line          | test_rebuild_list, test_rebuild_list_multiline |
| indented string        | `k = ''` / +2 content / `'';`                    | Strings; test_reproduce_indented_string_expression |
| with                   | `with x; [ y ]` value, `with e;` newline body    | with; test_nix_with* |
| if                     | one line `if a then b else c`                    | if-then-else; test_rebuild_if_statement |
| assert                 | `assert c;` newline body                         | assert; test_assert_expression |
| comments               | own-line `# c` at item indent; ` # c` after `;`  | Comments; test_rebuild_function_call_with_comment |
| blank lines            | single, between items                            | test_nix_function_definition_empty_lines_in_output_set |
| closing comment        | own-line `# c` before `}`, optionally after one blank line | Comments ("comments are preserved"), blank-line rule |
| head comment / blank   | `{ a }:` newline `# c` newline body; `}:` blank line body  | Function declaration + Comments; nixpkgs package heads |
"""

from __future__ import annotations

import random
from dataclasses import dataclass, field

IDENTS = ["pname", "version", "src", "meta", "buildInputs", "doCheck", "foo", "bar", "baz",
          "enable", "name", "url", "hash", "a", "b", "c", "x", "y", "cfg",
          "settings", "services", "foo-bar", "x'", "_p", "nativeBuildInputs", "homepage"]
FREE = ["pkgs", "lib", "stdenv", "fetchurl", "self", "final", "prev", "config"]


@dataclass
class Entry:
    kind: str                      # plain | nested | attrpath | inherit | quoted
    path: list[str] = field(default_factory=list)   # names (decoded)
    value: str = ""                # one-line canonical value text (plain / attrpath / quoted)
    value_lines: list[str] | None = None  # multi-line value (first line follows `=`)
    sub: "SetNode | None" = None   # nested
    names: list[str] = field(default_factory=list)  # inherit
    source: str | None = None      # inherit (source)
    above: list[str] = field(default_factory=list)  # own-line comment texts
    eol: str | None = None
    blank_before: bool = False


@dataclass
class SetNode:
    entries: list[Entry] = field(default_factory=list)
    rec: bool = False
    inline: bool = False           # `{ a = v; }` (only when it has exactly <= 1 plain entry)
    trailing: list[str] = field(default_factory=list)  # own-line comments before `}`
    trailing_blank: bool = False   # one blank line before those comments


@dataclass
class Doc:
    wrappers: list[tuple] = field(default_factory=list)  # outermost first
    target: SetNode = field(default_factory=SetNode)
    header: list[str] = field(default_factory=list)
    final_newline: bool = True
    head_comments: list[str] = field(default_factory=list)  # own-line comments after a `...:` head line
    head_blank: bool = False       # one blank line after a `...:` head line


def fmt_name(name: str) -> str:
    import re
    if re.match(r"^[A-Za-z_][A-Za-z0-9_'-]*$", name) and name not in (
            "let", "in", "with", "assert", "if", "then", "else", "rec", "inherit", "or"):
        return name
    esc = name.replace("\\", "\\\\").replace('"', '\\"').replace("${", "\\${")
    esc = esc.replace("\n", "\\n").replace("\r", "\\r").replace("\t", "\\t")
    return f'"{esc}"'


def render_set(s: SetNode, indent: int, head: str = "") -> list[str]:
    """Lines of a set; first line starts with `head` (e.g. 'name = ' or 'f ')."""
    opener = ("rec {" if s.rec else "{")
    pad = " " * indent
    if not s.entries and not s.trailing:
        return [f"{pad}{head}{'rec ' if s.rec else ''}{{ }}"]
    if s.inline and len(s.entries) == 1 and not s.trailing and _inlineable(s.entries[0]):
        e = s.entries[0]
        return [f"{pad}{head}{opener} {_entry_inline(e)} }}"]
    lines = [f"{pad}{head}{opener}"]
    for e in s.entries:
        lines += render_entry(e, indent + 2)
    if s.trailing and s.trailing_blank and s.entries:
        lines.append("")
    for c in s.trailing:
        lines.append(" " * (indent + 2) + f"# {c}")
    lines.append(f"{pad}}}")
    return lines


def _inlineable(e: Entry) -> bool:
    if e.above or e.eol or e.blank_before or e.value_lines:
        return False
    if e.kind == "nested":
        return e.sub is not None and not e.sub.entries and not e.sub.trailing
    return e.kind in ("plain", "attrpath", "quoted", "inherit")


def _entry_inline(e: Entry) -> str:
    if e.kind == "inherit":
        src = f" ({e.source})" if e.source else ""
        return f"inherit{src} " + " ".join(fmt_name(n) for n in e.names) + ";"
    if e.kind == "nested":
        return f"{'.'.join(fmt_name(p) for p in e.path)} = {'rec ' if e.sub.rec else ''}{{ }};"
    return f"{'.'.join(fmt_name(p) for p in e.path)} = {e.value};"


def render_entry(e: Entry, indent: int) -> list[str]:
    pad = " " * indent
    lines: list[str] = []
    if e.blank_before:
        lines.append("")
    for c in e.above:
        if isinstance(c, tuple):
            # multi-line block comment: (first line, body lines with their own relative depth)
            lines.append(f"{pad}/* {c[0]}")
            for depth, body in c[1]:
                lines.append(f"{pad}{' ' * (3 + depth)}{body}")
            lines.append(f"{pad}*/")
        else:
            lines.append(f"{pad}# {c}")
    if e.kind == "inherit":
        body = [pad + _entry_inline(e)]
    elif e.kind == "nested":
        name = ".".join(fmt_name(p) for p in e.path)
        body = render_set(e.sub, indent, head=f"{name} = ")
        body[-1] += ";"
    elif e.value_lines:
        name = ".".join(fmt_name(p) for p in e.path)
        body = [f"{pad}{name} = {e.value_lines[0]}"]
        for ln in e.value_lines[1:-1]:
            body.append((pad + "  " + ln) if ln else "")
        body.append(f"{pad}{e.value_lines[-1]};")
    else:
        name = ".".join(fmt_name(p) for p in e.path)
        body = [f"{pad}{name} = {e.value};"]
    if e.eol:
        body[-1] += f" # {e.eol}"
    return lines + body


def _last_head(doc: Doc):
    heads = [w for w in doc.wrappers if w[0] == "formals"]
    return heads[-1] if heads else None


def render(doc: Doc) -> str:
    lines: list[str] = [f"# {h}" for h in doc.header]
    pending_head = ""
    for w in doc.wrappers:
        kind = w[0]
        if kind == "formals":
            lines.append(pending_head + "{ " + ", ".join(w[1]) + " }:")
            pending_head = ""
            if w is doc.wrappers[0] or True:
                if doc.head_blank and w is _last_head(doc):
                    lines.append("")
                if doc.head_comments and w is _last_head(doc):
                    lines += [f"# {c}" for c in doc.head_comments]
        elif kind == "lambda":
            pending_head += f"{w[1]}: "
        elif kind == "let":
            if pending_head:
                # an identifier lambda directly before a let: body goes on the next line
                lines.append(pending_head.rstrip())
                pending_head = ""
            # an optional comment on the `let` line itself: ("let", entries, comment)
            lines.append("let" + (f" # {w[2]}" if len(w) > 2 and w[2] else ""))
            for e in w[1]:
                lines += render_entry(e, 2)
            lines.append("in")
            # optional own-line trivia between this `in` and what follows (the next `let`, or the
            # body): ("let", entries, comment, after_in) with after_in = "" (blank line) or a comment
            if len(w) > 3 and w[3] is not None:
                lines.append(f"# {w[3]}" if w[3] else "")
        elif kind == "with":
            lines.append(pending_head + f"with {w[1]};")
            pending_head = ""
        elif kind == "assert":
            lines.append(pending_head + f"assert {w[1]};")
            pending_head = ""
        elif kind == "call":
            pending_head += f"{w[1]} "
        else:
            raise ValueError(kind)
    body = render_set(doc.target, 0, head=pending_head)
    lines += body
    text = "\n".join(lines)
    if doc.final_newline:
        text += "\n"
    return text


# ----------------------------------------------------------------- generation
# call heads: the set is the last argument, after zero or more earlier arguments (curried calls)
CALL_HEADS = ["mkDerivation", "stdenv.mkDerivation", "f", "mkDerivation", "stdenv.mkDerivation", "f",
              "f x y", "callPackage ./pkg.nix { }", "lib.makeOverridable f x", "f (g 1) [ 2 ] x",
              "(f) a", "(lib.makeOverridable f) args", "((g)) x y", "(f)"]
VALUES_ONE_LINE = [
    lambda r: str(r.randrange(0, 9999)),
    lambda r: '"' + r.choice(["1.2.3", "demo", "https://example.org/x.tar.gz", "a b", "é→", ""]) + '"',
    lambda r: r.choice(["true", "false", "null"]),
    lambda r: r.choice(FREE),
    lambda r: r.choice(FREE) + "." + r.choice(IDENTS[:12]),
    lambda r: f"{r.choice(FREE)} {r.choice(['x', '1', './p'])}",
    lambda r: "[ ]",
    lambda r: "[ " + " ".join(r.choice(IDENTS[:12]) for _ in range(r.choice([1, 2, 3]))) + " ]",
    lambda r: "{ }",
    lambda r: "./" + r.choice(["default.nix", "src", "a/b.nix"]),
    lambda r: f"with {r.choice(FREE)}; [ {r.choice(IDENTS[:12])} ]",
    lambda r: f"if {r.choice(FREE)}.x then 1 else 2",
    lambda r: f"{r.choice(FREE)}.x or null",
    lambda r: f"{r.choice(['a', 'x'])} + {r.randrange(1, 9)}",
    lambda r: f"-{r.randrange(1, 99)}",
    lambda r: f"!{r.choice(FREE)}.x",
]


def multi_line_value(r: random.Random):
    k = r.random()
    if k < 0.4:
        n = r.choice([2, 3, 5])
        items = [r.choice(IDENTS[:14]) for _ in range(n)]
        return ["["] + items + ["]"]
    if k < 0.7:
        return ["''", r.choice(["echo hi", "make install", "line one"]), r.choice(["second", "# not a comment"]), "''"]
    n = r.choice([2, 3])
    return [f"with {r.choice(FREE)};", "["] + ["  " + r.choice(IDENTS[:12]) for _ in range(n)] + ["]"] \
        if False else ["["] + [r.choice(IDENTS[:14]) for _ in range(n)] + ["]"]


class DocGen:
    def __init__(self, rng: random.Random, *, comments: bool = True, rich_values: bool = True,
                 inherit: bool = True, quoted: bool = True, max_entries: int = 7, depth: int = 2,
                 hyphen: bool = True, comment_rate: float = 1.0):
        self.hyphen = hyphen
        self.comment_rate = comment_rate
        self.r = rng
        self.comments = comments
        self.rich = rich_values
        self.inherit = inherit
        self.quoted = quoted
        self.max_entries = max_entries
        self.depth = depth
        self.n = 0

    def value(self) -> str:
        r = self.r
        if not self.rich:
            return r.choice(VALUES_ONE_LINE[:4])(r)
        return r.choice(VALUES_ONE_LINE)(r)

    def comment(self) -> str:
        self.n += 1
        return f"note {self.n}"

    def names(self, k: int) -> list[str]:
        pool = [n for n in IDENTS if self.hyphen or "-" not in n]
        self.r.shuffle(pool)
        out = pool[:k]
        while len(out) < k:
            self.n += 1
            out.append(f"k{self.n}")
        return out

    def set_node(self, depth: int, n_entries: int | None = None) -> SetNode:
        r = self.r
        n = n_entries if n_entries is not None else r.choice(range(0, self.max_entries + 1))
        names = self.names(n + 1)
        s = SetNode(rec=r.random() < 0.08)
        i = 0
        while i < n:
            nm = names[i]
            k = r.random()
            if k < 0.12 and depth < self.depth:
                sub = self.set_node(depth + 1, r.choice([0, 1, 1, 2, 3]))
                sub.inline = len(sub.entries) <= 1 and r.random() < 0.5
                e = Entry("nested", [nm], sub=sub)
            elif k < 0.27:
                # attrpath family: 1-3 leaves under the same root, contiguous
                leaves = self.names(r.choice([1, 2, 2, 3]))
                fam = []
                for lf in leaves:
                    path = [nm, lf]
                    if r.random() < 0.15:
                        path.append(r.choice(["x", "y"]))
                    fam.append(Entry("attrpath", path, value=self.value()))
                # deep family: four-segment paths that share their first three segments
                if r.random() < 0.12:
                    self.n += 1
                    mid = f"svc{self.n}"
                    for lf in self.names(2):
                        fam.append(Entry("attrpath", [nm, mid, "hosts", lf], value=self.value()))
                # twins: the same leaf name with the same value under another prefix
                # (`services.a.enable = true; services.b.enable = true;`, `x.enable` / `y.enable`)
                if r.random() < 0.25:
                    tw_val = r.choice(["true", "false", '"1.2.3"', "[ ]"])
                    tw_leaf = r.choice(["enable", "version", "package"])
                    if r.random() < 0.5:
                        self.n += 2
                        mids = [f"svc{self.n - 1}", f"svc{self.n}"]
                        fam.append(Entry("attrpath", [nm, mids[0], tw_leaf], value=tw_val))
                        fam.append(Entry("attrpath", [nm, mids[1], tw_leaf], value=tw_val))
                    else:
                        if tw_leaf not in leaves:
                            fam.append(Entry("attrpath", [nm, tw_leaf], value=tw_val))
                            self._twin = (tw_leaf, tw_val)
                elif getattr(self, "_twin", None) and r.random() < 0.6:
                    tw_leaf, tw_val = self._twin
                    self._twin = None
                    if tw_leaf not in leaves:
                        fam.append(Entry("attrpath", [nm, tw_leaf], value=tw_val))
                # mixed root: the same root also written as an explicit set (legal Nix: the
                # definitions merge), before or after its dotted bindings
                if r.random() < 0.10 and depth < self.depth:
                    self.n += 1
                    sub = SetNode(entries=[Entry("plain", [f"own{self.n}"], value=self.value())])
                    mixed = Entry("nested", [nm], sub=sub)
                    if r.random() < 0.5:
                        fam.insert(0, mixed)
                    else:
                        fam.append(mixed)
                for e in fam[:-1]:
                    self.decorate(e, first=not s.entries)
                    s.entries.append(e)
                e = fam[-1]
            elif k < 0.33 and self.inherit:
                e = Entry("inherit", names=[f"{nm}_i{j}" for j in range(r.choice([1, 2, 3]))],
                          source=r.choice([None, None, "pkgs", "lib.x"]))
            elif k < 0.38 and self.quoted:
                e = Entry("quoted", [r.choice(["a.b", "with space", "é", "1x"]
                                              + (["x-" + nm] if self.hyphen else [])) + str(i)],
                          value=self.value())
            elif k < 0.48 and self.rich:
                e = Entry("plain", [nm], value_lines=multi_line_value(r))
            else:
                e = Entry("plain", [nm], value=self.value())
            self.decorate(e, first=not s.entries)
            s.entries.append(e)
            i += 1
        if self.comments and s.entries and r.random() < 0.06 * self.comment_rate:
            s.trailing = [self.comment()]
            if r.random() < 0.3:
                s.trailing.append(self.comment())
            s.trailing_blank = r.random() < 0.4
        elif self.comments and not s.entries and depth > 0 and r.random() < 0.3 * min(1.0, self.comment_rate):
            # a set that holds nothing but a comment (`meta = {\n  # todo\n};`)
            s.trailing = [self.comment()]
        return s

    def decorate(self, e: Entry, first: bool) -> None:
        r = self.r
        if not self.comments:
            return
        cr = self.comment_rate
        if r.random() < 0.10 * cr:
            e.above = [self.comment()]
            if r.random() < 0.15:
                # a block comment over several lines, body lines of different depth (an indented
                # example followed by prose)
                shape = r.choice([[(0, "second line")], [(4, "deeper example"), (0, "back again")],
                                  [(2, "a"), (4, "b"), (0, "c")]])
                e.above = [(self.comment(), shape)]
            if r.random() < 0.2:
                e.above.append(self.comment())
        if r.random() < 0.07 * cr and not e.value_lines:
            e.eol = self.comment()
        if not first and r.random() < 0.10 * max(1.0, cr / 2):
            e.blank_before = True

    def let_entries(self, k: int) -> list[Entry]:
        names = self.names(k)
        out = []
        seen = set()
        for nm in names:
            lname = "l_" + nm.replace("-", "_").replace("'", "")
            if lname in seen:
                continue
            seen.add(lname)
            e = Entry("plain", [lname], value=self.value())
            self.decorate(e, first=not out)
            out.append(e)
        if self.inherit and self.r.random() < 0.15:
            # inherit clauses among the bindings of a layer (they are entries of the layer too:
            # a layer that still holds one is not empty)
            self.n += 1
            e = Entry("inherit", names=[f"l_inh{self.n}"] + ([f"l_inh{self.n}b"] if self.r.random() < 0.3 else []),
                      source=self.r.choice([None, "pkgs", "lib.x"]))
            self.decorate(e, first=not out)
            out.insert(self.r.randrange(len(out) + 1), e)
        if self.r.random() < 0.12:
            # dotted bindings that share a root, as in a set: `l_fam.x = 1; l_fam.y = 2;`
            self.n += 1
            root = f"l_fam{self.n}"
            leaves = []
            for lf in self.names(self.r.choice([2, 2, 3])):
                lf = lf.replace("-", "_").replace("'", "")
                if lf not in leaves:
                    leaves.append(lf)
            for lf in leaves:
                e = Entry("attrpath", [root, lf], value=self.value())
                self.decorate(e, first=not out)
                out.append(e)
        return out

    def doc(self, *, wrappers: str | None = None, layers: int | None = None) -> Doc:
        r = self.r
        d = Doc()
        if self.comments and r.random() < 0.2:
            d.header = [self.comment()]
        shape = wrappers if wrappers is not None else r.choice(
            ["bare", "bare", "formals", "formals", "lambda", "call", "formals+call", "with",
             "assert", "formals+with", "lambda+lambda", "formals+assert"])
        for part in shape.split("+"):
            if part == "bare":
                pass
            elif part == "formals":
                d.wrappers.append(("formals", self.names(r.choice([1, 2, 3]))))
            elif part == "lambda":
                d.wrappers.append(("lambda", r.choice(["self", "final", "prev", "pkgs"])))
            elif part == "call":
                d.wrappers.append(("call", r.choice(CALL_HEADS)))
            elif part == "with":
                d.wrappers.append(("with", r.choice(["pkgs", "lib", "pkgs", "lib", "pkgs", "lib", "pkgs.lib"])))
            elif part == "assert":
                d.wrappers.append(("assert", r.choice(["lib.x", "pkgs != null", "true"])))
        nl = layers if layers is not None else r.choice([0, 0, 0, 0, 1, 1, 1, 2, 2, 3, 4])
        # let layers sit directly around the target set (after every other wrapper) unless the
        # innermost wrapper is a call head, where a bare let is not valid Nix
        if nl and not (d.wrappers and d.wrappers[-1][0] == "call"):
            for _ in range(nl):
                note = self.comment() if (self.comments and r.random() < 0.08 * self.comment_rate) else None
                after_in = None
                if self.comments and r.random() < 0.07 * self.comment_rate:
                    after_in = self.comment()
                elif r.random() < 0.04:
                    after_in = ""
                d.wrappers.append(("let", self.let_entries(r.choice([1, 2, 3])), note, after_in))
        d.target = self.set_node(0, r.choice(range(1, self.max_entries + 1)))
        if d.wrappers and d.wrappers[-1][0] == "call" and r.random() < 0.2:
            d.target.rec = True
        d.final_newline = True
        # head idioms only when the formals head is directly followed by the body (set, let,
        # with, assert on its own line): `{ a }:` newline [blank] [# comment] newline body
        heads = [i for i, w in enumerate(d.wrappers) if w[0] == "formals"]
        if heads and self.comments:
            nxt = d.wrappers[heads[-1] + 1][0] if heads[-1] + 1 < len(d.wrappers) else "set"
            if nxt in ("set", "let", "with", "assert"):
                if r.random() < 0.12 * self.comment_rate:
                    d.head_comments = [self.comment()]
                if r.random() < 0.25:
                    d.head_blank = True
        return d
