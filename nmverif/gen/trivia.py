"""Gap filler: one trivia class per gap between two tokens.

A rendered program is `lead + t0 + g0 + t1 + g1 + ... + tn + trail`.  Gaps that
are glued (string / path content) stay empty.  Every comment carries a unique
serial (`c<N>x`) so the oracle can match input and output comments
unambiguously and can map a comment back to the gap that produced it.
"""

from __future__ import annotations

import random
import re

from nmverif.oracle import cst

_OPEN_SAFE = "([{;,"
_CLOSE_SAFE = ")]};,"

CANONICALISH = ["sp", "nl", "nl_ind", "blank"]
LINE_COMMENTS = ["eol_c", "own_c", "blank_own_c", "nosp_c", "two_c", "uni_c", "shebang_c",
                 "own_c_ind", "eol_c_blank", "own_c_blank", "ctl_c"]
HOSTILE_EXTRA = ["sp2", "tab", "blank2", "crlf", "inl_blk", "own_blk", "ml_blk", "doc",
                 "trail_ws", "tight", "inl_blk_tight", "eol_blk", "lead_blk",
                 "crlf_blank", "eol_c_crlf", "eol_c_crlf_blank", "blk_edge", "ctl_blk",
                 "two_blk", "blk_eol_c", "own_blk_eol_c", "three_blk", "two_blk_eol_c"]

# characters that str.splitlines() treats as line boundaries and the Nix grammar does not
PY_ONLY_LINE_BOUNDARIES = ["\x0b", "\x0c", "\x1c", "\x1d", "\x1e", "\x85", "\u2028", "\u2029"]

ALL_CLASSES = ["min"] + CANONICALISH + LINE_COMMENTS + HOSTILE_EXTRA

MODES = {
    "canonical-ish": CANONICALISH,
    "line-comments": CANONICALISH + LINE_COMMENTS * 2,
    "hostile": CANONICALISH + LINE_COMMENTS + HOSTILE_EXTRA * 2,
    "comments-only": LINE_COMMENTS + ["inl_blk", "own_blk", "ml_blk", "doc", "eol_blk", "lead_blk"],
}

COMMENT_CLASSES = set(LINE_COMMENTS) | {"inl_blk", "own_blk", "ml_blk", "doc", "inl_blk_tight",
                                        "eol_blk", "lead_blk", "eol_c_crlf", "eol_c_crlf_blank",
                                        "blk_edge", "ctl_blk", "two_blk", "blk_eol_c", "own_blk_eol_c", "three_blk", "two_blk_eol_c"}

_SERIAL_RE = re.compile(r"c(\d+)x")


def minimal_gap(prev: str, nxt: str) -> str:
    if not prev or not nxt:
        return ""
    if prev[-1] in _OPEN_SAFE or nxt[0] in _CLOSE_SAFE:
        # keep `{ }` style spacing out of it: tight is the most hostile minimal form
        if prev[-1] == "$" or (prev[-1] == "'" and nxt[0] == "'"):
            return " "
        return ""
    return " "


class Serial:
    def __init__(self) -> None:
        self.n = 0
        self.gap_of: dict[int, int] = {}

    def new(self, gap_index: int) -> str:
        self.n += 1
        self.gap_of[self.n] = gap_index
        return f"c{self.n}x"


def gap_text(cls: str, rng: random.Random, serial: Serial, gi: int, prev: str, nxt: str) -> str:
    ind = " " * rng.choice([0, 0, 2, 2, 4, 3, 7])
    if cls == "min":
        return minimal_gap(prev, nxt)
    if cls == "tight":
        return ""
    if cls == "sp":
        return " "
    if cls == "sp2":
        return " " * rng.choice([2, 3, 5, 9])
    if cls == "tab":
        return rng.choice(["\t", " \t", "\t\t", "\t "])
    if cls == "nl":
        return "\n"
    if cls == "nl_ind":
        return "\n" + ind
    if cls == "blank":
        return "\n\n" + ind
    if cls == "blank2":
        return "\n" * rng.choice([3, 4]) + ind
    if cls == "crlf":
        return "\r\n" + ind
    if cls == "crlf_blank":
        return "\r\n\r\n" + ind
    if cls == "trail_ws":
        return rng.choice([" \n", "  \n", "\t\n", " \n \n"]) + ind
    c = serial.new(gi)
    if cls == "eol_c":
        return f" # {c}\n" + ind
    if cls == "eol_c_blank":
        return f" # {c}\n\n" + ind
    if cls == "eol_c_crlf":
        return f" # {c}\r\n" + ind
    if cls == "eol_c_crlf_blank":
        return f" # {c}\r\n\r\n" + ind
    if cls == "own_c_blank":
        return f"\n{ind}# {c}\n\n" + ind
    if cls == "blk_edge":
        # wording that ends in the characters of the closer
        return rng.choice([f" /* {c} **/ ", f" /* {c} pkgs/*/ ", f" /*{c}*****/ ", f"\n{ind}/* {c} //*/\n{ind}"])
    if cls == "own_c":
        return f"\n# {c}\n" + ind
    if cls == "own_c_ind":
        return f"\n{ind}# {c}\n" + ind
    if cls == "blank_own_c":
        return f"\n\n{ind}# {c}\n" + ind
    if cls == "nosp_c":
        return f" #{c}\n" + ind
    if cls == "shebang_c":
        return f"\n#!{c}\n" + ind
    if cls == "two_c":
        c2 = serial.new(gi)
        return f"\n{ind}# {c}\n{ind}# {c2}\n" + ind
    if cls == "ctl_c":
        ch = rng.choice(PY_ONLY_LINE_BOUNDARIES)
        return rng.choice([f" # {c}{ch}tail\n", f" # {c} a{ch} b\n", f" #{ch}{c}\n"]) + ind
    if cls == "ctl_blk":
        ch = rng.choice(PY_ONLY_LINE_BOUNDARIES)
        return rng.choice([f" /* {c}{ch}tail */ ", f"\n{ind}/* {c}\n{ind}   second{ch}line\n{ind}*/\n{ind}"])
    if cls == "two_blk":
        # two comments sharing one line in one gap
        c2 = serial.new(gi)
        return rng.choice([f" /* {c} */ /* {c2} */ ", f"/*{c}*//*{c2}*/", f"\n{ind}/* {c} */ /* {c2} */\n{ind}"])
    if cls == "three_blk":
        c2, c3 = serial.new(gi), serial.new(gi)
        return f" /* {c} */ /* {c2} */ /* {c3} */ "
    if cls == "two_blk_eol_c":
        c2, c3 = serial.new(gi), serial.new(gi)
        return f" /* {c} */ /* {c2} */ # {c3}\n{ind}"
    if cls == "blk_eol_c":
        c2 = serial.new(gi)
        return f" /* {c} */ # {c2}\n" + ind
    if cls == "own_blk_eol_c":
        c2 = serial.new(gi)
        return f"\n{ind}/* {c} */ # {c2}\n" + ind
    if cls == "uni_c":
        return f"\n{ind}# é→ {c} ✓\n" + ind
    if cls == "inl_blk":
        return f" /* {c} */ "
    if cls == "inl_blk_tight":
        return f"/*{c}*/"
    if cls == "eol_blk":
        return f" /* {c} */\n" + ind
    if cls == "lead_blk":
        return f"\n{ind}/* {c} */ "
    if cls == "own_blk":
        return f"\n{ind}/* {c} */\n" + ind
    if cls == "ml_blk":
        if rng.random() < 0.35:
            # body lines of different depth, the first one deeper than a later one
            return f"\n{ind}/* {c}\n{ind}       deeper line\n{ind}   shallower line\n{ind}     middle\n{ind}*/\n" + ind
        return f"\n{ind}/* {c}\n{ind}   second line\n{ind}*/\n" + ind
    if cls == "doc":
        return f"\n{ind}/** {c} */\n" + ind
    raise ValueError(cls)


def edge_text(cls: str, rng: random.Random, serial: Serial, gi: int, leading: bool) -> str:
    """Leading / trailing gap of the file."""
    if cls == "min" or cls == "tight":
        return ""
    if leading:
        # strip the whitespace that would precede a comment at file start sometimes
        txt = gap_text(cls, rng, serial, gi, "x", "x")
        if rng.random() < 0.5:
            txt = txt.lstrip(" \n") if cls in COMMENT_CLASSES else txt
        return txt
    txt = gap_text(cls, rng, serial, gi, "x", "x")
    if rng.random() < 0.5:
        txt = txt.rstrip(" ")
    if rng.random() < 0.3 and cls in COMMENT_CLASSES and txt.endswith("\n"):
        txt = txt.rstrip("\n ")
        if txt.lstrip().startswith("#") or "\n#" in txt or " #" in txt:
            pass  # a line comment may end the file without newline
    return txt


def render(tokens: list[str], glue: list[bool], gaps: list[str], lead: str = "",
           trail: str = "") -> str:
    parts = [lead, tokens[0]]
    for i in range(1, len(tokens)):
        parts.append("" if glue[i - 1] else gaps[i - 1])
        parts.append(tokens[i])
    parts.append(trail)
    return "".join(parts)


def reference_text(tokens: list[str], glue: list[bool]) -> str:
    gaps = ["" if g else " " for g in glue]
    return render(tokens, glue, gaps)


class Rendered:
    __slots__ = ("text", "classes", "gaps", "lead", "trail", "lead_cls", "trail_cls", "serial",
                 "ref_tokens", "n_comments")


def choose_and_render(tokens: list[str], glue: list[bool], rng: random.Random, mode: str,
                      density: float, ref_tokens=None, edge_p: float = 0.25,
                      max_tries: int = 4):
    """Pick a class per gap, render, self-check against the reference rendering.

    Returns Rendered or None (rejected)."""
    if ref_tokens is None:
        ref = cst.read(reference_text(tokens, glue))
        if ref.error:
            return None
        ref_tokens = ref.tokens
    pool = MODES[mode]
    n = len(tokens)
    for attempt in range(max_tries):
        serial = Serial()
        classes: list[str] = []
        gaps: list[str] = []
        for i in range(n - 1):
            if glue[i]:
                classes.append("glue")
                gaps.append("")
                continue
            cls = rng.choice(pool) if rng.random() < density else "min"
            if attempt >= 2 and cls in ("tight", "inl_blk_tight"):
                cls = "sp"
            classes.append(cls)
            gaps.append(gap_text(cls, rng, serial, i, tokens[i], tokens[i + 1]))
        lead_cls = rng.choice(pool) if rng.random() < edge_p else "min"
        trail_cls = rng.choice(pool) if rng.random() < edge_p * 2 else rng.choice(["min", "nl"])
        if lead_cls in ("tight", "inl_blk_tight"):
            lead_cls = "min"
        lead = edge_text(lead_cls, rng, serial, -1, True)
        trail = edge_text(trail_cls, rng, serial, -2, False) if trail_cls != "nl" else "\n"
        text = render(tokens, glue, gaps, lead, trail)
        rd = cst.read(text)
        if rd.error or rd.tokens != ref_tokens or len(rd.comments) != serial.n:
            if attempt == max_tries - 2:
                pool = [c for c in pool if c not in ("tight", "inl_blk_tight")] or ["sp"]
            continue
        out = Rendered()
        out.text = text
        out.classes = classes
        out.gaps = gaps
        out.lead = lead
        out.trail = trail
        out.lead_cls = lead_cls
        out.trail_cls = trail_cls
        out.serial = serial
        out.ref_tokens = ref_tokens
        out.n_comments = serial.n
        return out
    return None


def serial_of(comment_raw: str) -> int | None:
    m = _SERIAL_RE.search(comment_raw)
    return int(m.group(1)) if m else None
