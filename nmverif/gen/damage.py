"""G-damage: syntax-damage operators applied at every position of a valid program."""

from __future__ import annotations

import random

from nmverif.oracle import cst

STRAY = [";", "}", "{", ")", "(", "]", "[", "=", "in", "then", ":", ",", '"', "''", "${", "@",
         "?", "...", "|", "&", "^", "%", "`", "\\", "~", "é", "\x01"]

NON_NIX = ["", "hello world!", "<html><body>x</body></html>", "{\"json\": [1, 2, 3]}",
           "#!/bin/sh\necho hi\n", "def f(x):\n    return x\n", "= = =", ";;;;", "}}}}", "((((",
           "''unterminated", '"unterminated', "/* unterminated", "${", "let in", "if then else",
           "\x00\x01\x02", "日本語のテキスト", "a = 1;", "{ a = 1 }", "[ 1, 2 ]", "x: y: z:", "@",
           "{ inherit; = }", "rec", "with;", "assert;", "1 +", "! ", "- ", "a.", "a ? ", "a or"]


def code_leaf_spans(data: bytes):
    root = cst.parse_bytes(data).root_node
    return [(lf.start, lf.end, lf.type) for lf in cst.iter_leaves(root) if lf.type != "comment"]


def damaged_texts(text: str, rng: random.Random, *, every_byte: bool = True, max_per_op: int | None = None):
    """Yield (operator, position label, damaged bytes) for every token position / byte."""
    data = text.encode("utf-8")
    spans = code_leaf_spans(data)
    n = len(spans)
    idxs = list(range(n))
    if max_per_op is not None and n > max_per_op:
        idxs = sorted(rng.sample(idxs, max_per_op))
    for i in idxs:
        s, e, t = spans[i]
        pos = "first" if i == 0 else ("last" if i == n - 1 else "middle")
        yield "delete-token", pos, data[:s] + data[e:]
        yield "duplicate-token", pos, data[:e] + b" " + data[s:e] + data[e:]
        stray = rng.choice(STRAY).encode("utf-8")
        yield "insert-stray", pos, data[:s] + stray + b" " + data[s:]
        if i + 1 < n:
            s2, e2, _t2 = spans[i + 1]
            yield "swap-tokens", pos, data[:s] + data[s2:e2] + data[e:s2] + data[s:e] + data[e2:]
    if every_byte:
        cuts = list(range(1, len(data)))
        if max_per_op is not None and len(cuts) > max_per_op * 3:
            cuts = sorted(rng.sample(cuts, max_per_op * 3))
        for c in cuts:
            # stay on a UTF-8 boundary
            while c < len(data) and (data[c] & 0xC0) == 0x80:
                c += 1
            pos = "first" if c < len(data) / 3 else ("last" if c > 2 * len(data) / 3 else "middle")
            yield "truncate", pos, data[:c]


def wrap_whitespace(data: bytes, rng: random.Random) -> tuple[bytes, str, str]:
    lead = rng.choice([b"", b"", b"", b"\n", b"  ", b"\n\n  ", b"\t", b"\r\n"])
    trail = rng.choice([b"", b"", b"\n", b"\n\n", b"  ", b" \n"])
    return lead + data + trail, ("yes" if lead else "no"), ("yes" if trail else "no")
