"""G-scope: scoping programs from an abstract scope tree with process-unique integer literals,
and the reference resolver (textbook Nix lexical scoping) that says what each reference denotes.

Abstract syntax
    SetExpr  = wrappers (let / with frames, outermost first) around a plain or `rec` set
    binding  = int literal (unique) | Ref(name) | Inherit | InheritFrom(src) | SetExpr (nested)
A query is a key path from the root set to a binding; the resolver returns the unique integer
(or the set of integers of a set value) that Nix would produce for it, or `unbound` / `cycle`.
"""

from __future__ import annotations

import random
from dataclasses import dataclass, field

_UID = [100000]


def uid() -> int:
    _UID[0] += 1
    return _UID[0]


def reset_uid(base: int) -> None:
    _UID[0] = base


NAMES = ["a", "b", "c", "d", "e"]


@dataclass
class Ref:
    name: str


@dataclass
class Inherit:
    pass


@dataclass
class InheritFrom:
    src: str


@dataclass
class Closure:
    """A value that is evaluated in the frames where it was written (call arguments)."""
    frames: list
    value: object


@dataclass
class Frame:
    kind: str                                       # let | with | rec | plain | opaque
    bindings: dict = field(default_factory=dict)    # name -> int | Ref | Inherit | InheritFrom | SetExpr
    env_name: str | None = None                     # with: environment given by a name
    notes: dict = field(default_factory=dict)       # name -> text of a block comment before the value
    head: str = ""                                  # opaque: text of a head that binds none of NAMES
                                                    # (`{ pkgs }:`, `pkgs:`, `assert true;`)


@dataclass
class SetExpr:
    wrappers: list[Frame]
    rec: bool
    bindings: dict
    inline: bool = False   # written on one line: `rec { x = a; a = 1; }` (only flat sets)
    notes: dict = field(default_factory=dict)   # name -> text of a block comment before the value
    dotted: bool = False   # written as dotted bindings of the parent: `k.x = a; k.y = 1;`
                           # (only flat, plain sets without wrappers)


@dataclass
class Call:
    """`outer-lets ({ formals }: root) argument` - a directly applied function."""
    outer: list                 # let frames around the call
    formals: dict               # name -> default value (int | Ref) or None
    arg: object                 # dict (literal set) | str (name bound in outer)
    holder: object = None       # SetExpr: the call is the value of binding `y` of this set, whose
                                # wrappers (and the set itself when rec) are scopes around the call


@dataclass
class Program:
    root: SetExpr
    text: str = ""
    n_bindings: int = 0
    call: Call | None = None
    alias: tuple | None = None  # (name, i): the root set is bound to `name` in let wrapper i and
                                # the document body is that name; the set sees wrappers[:i+1] only


class Unbound(Exception):
    pass


# number of times the last resolutions evaluated a *non-literal* value of a set that is used from
# outside (with environment, inherit source, call argument, dereferenced alias): the domain of the
# test-pinned deviation "such sets are evaluated where they are used, as rec"
CROSSINGS = [0]


class Cycle(Exception):
    pass


# ----------------------------------------------------------------------------- resolver

class MissingArgument(Exception):
    pass


def call_frames(call: Call) -> list[Frame]:
    """Frames a function body sees: the lets around the call, then the formals."""
    outer = list(call.outer)
    if call.holder is not None:
        h = call.holder
        outer = list(h.wrappers) + [Frame("rec" if h.rec else "plain", h.bindings)] + outer
    if isinstance(call.arg, dict):
        supplied = call.arg
        arg_frames = outer
    else:
        try:
            res = lookup(outer, call.arg, frozenset())
        except (Unbound, Cycle) as exc:
            raise MissingArgument(str(exc)) from None
        if res[0] != "set":
            raise MissingArgument("argument is not a set")
        supplied = res[2].bindings
        arg_frames = res[1]
    formals: dict = {}
    for name, default in call.formals.items():
        if name in supplied:
            formals[name] = Closure(arg_frames, supplied[name])
        elif default is not None:
            formals[name] = default
        else:
            raise MissingArgument(name)
    return outer + [Frame("let", formals)]


def frames_for(prog, path: list[str]) -> tuple[list[Frame], object]:
    """Frames enclosing the binding addressed by `path` (outermost first) and the binding value.
    The set holding the binding contributes a `rec` or `plain` frame as the last element."""
    frames: list[Frame] = []
    if isinstance(prog, Program):
        if prog.call is not None:
            frames = call_frames(prog.call)
        cur = prog.root
    else:
        cur = prog
    for i, key in enumerate(path):
        if i == 0 and isinstance(prog, Program) and prog.alias is not None:
            frames.extend(cur.wrappers[: prog.alias[1] + 1])
        else:
            frames.extend(cur.wrappers)
        frames.append(Frame("rec" if cur.rec else "plain", cur.bindings))
        v = cur.bindings[key]
        if i == len(path) - 1:
            return frames, v
        if not isinstance(v, SetExpr):
            raise KeyError(path)
        cur = v
    raise KeyError(path)


def ids_of(v) -> frozenset:
    out = set()
    if isinstance(v, int):
        out.add(v)
    elif isinstance(v, SetExpr):
        for fr in v.wrappers:
            for x in fr.bindings.values():
                out |= ids_of(x)
        for x in v.bindings.values():
            out |= ids_of(x)
    return frozenset(out)


def _as_frame(env: SetExpr) -> Frame:
    return Frame("rec" if env.rec else "plain", env.bindings)


def lookup(frames: list[Frame], name: str, visited: frozenset, mode: str = "nix"):
    """Nix: innermost lexical (let / rec) binding wins; `with` only when no lexical binding.

    mode "nix"    - the language's rules;
    mode "pinned" - the variant pinned by tests/test_cli.py::test_cli_set_follows_with_scope_identifier:
                    a set used as with environment or inherit source is treated as recursive and
                    its values are evaluated where it is *used* (only used to attribute witnesses).
    """
    for i in range(len(frames) - 1, -1, -1):
        fr = frames[i]
        if fr.kind in ("let", "rec") and name in fr.bindings:
            return evaluate(frames, i, name, visited, mode)
    for i in range(len(frames) - 1, -1, -1):
        fr = frames[i]
        if fr.kind != "with":
            continue
        if fr.env_name is not None:
            _k, env_frames, env, _w = lookup_set(frames[:i], fr.env_name, visited, mode)
            if name in env.bindings:
                if mode == "pinned":
                    inner = frames[:i] + [Frame("with", env.bindings)]
                    return evaluate(inner, len(inner) - 1, name, visited, mode)
                inner = env_frames + list(env.wrappers) + [_as_frame(env)]
                if not isinstance(env.bindings.get(name), int):
                    CROSSINGS[0] += 1
                return evaluate(inner, len(inner) - 1, name, visited, mode)
        elif name in fr.bindings:
            return evaluate(frames[: i + 1], i, name, visited, mode)
    raise Unbound(name)


def lookup_set(frames, name, visited, mode="nix"):
    """`name` may be a select path (`s1.lib`): the first segment is looked up, the others are
    attributes of literal sets."""
    base, *rest = name.split(".")
    res = lookup(frames, base, visited, mode)
    if res[0] != "set":
        raise Unbound(f"{base} is not a set")
    for seg in rest:
        _k, env_frames, env, _w = res
        sub = env.bindings.get(seg)
        if not isinstance(sub, SetExpr):
            raise Unbound(f"{name} is not a set")
        res = ("set", list(env_frames) + list(env.wrappers) + [_as_frame(env)], sub, (env.bindings, seg))
    return res


def evaluate(frames: list[Frame], idx: int, name: str, visited: frozenset, mode: str = "nix",
             top: bool = False):
    """`top`: the binding is the one the query addresses (reached by key path, not by a lookup)."""
    fr = frames[idx]
    key = (fr.kind, id(fr.bindings), name)
    if key in visited:
        raise Cycle(name)
    visited = visited | {key}
    v = fr.bindings[name]
    where = (fr.bindings, name)
    recursive = fr.kind in ("let", "rec") or (mode == "pinned" and fr.kind == "with")
    if isinstance(v, Inherit):
        # `inherit name;` takes the name from outside this frame
        return lookup(frames[:idx], name, visited, mode)
    if isinstance(v, InheritFrom):
        # the source expression is evaluated in the frame's own scope (let / rec are recursive)
        ctx = frames[: idx + 1] if recursive else frames[:idx]
        _k, env_frames, env, _w = lookup_set(ctx, v.src, visited, mode)
        if name not in env.bindings:
            raise Unbound(name)
        if not isinstance(env.bindings.get(name), int):
            CROSSINGS[0] += 1
        if mode == "pinned":
            inner = frames[: idx + 1] + [Frame("rec", env.bindings)]
        else:
            inner = env_frames + list(env.wrappers) + [_as_frame(env)]
        return evaluate(inner, len(inner) - 1, name, visited, mode)
    ctx = frames[: idx + 1] if recursive else frames[:idx]
    if fr.kind in ("with", "plain") and not isinstance(v, int) and not top:
        CROSSINGS[0] += 1   # a with environment / a set reached from outside, non-literal value
    if isinstance(v, Closure) and not isinstance(v.value, int):
        CROSSINGS[0] += 1
    try:
        return value_of(ctx, v, visited, where, mode)
    except Unbound as exc:
        # remember the links of a chain that ends in an unbound name (innermost first)
        if isinstance(v, (Ref, Closure)):
            exc.links = getattr(exc, "links", []) + [where]
        raise


def value_of(ctx: list[Frame], v, visited, where, mode="nix"):
    if isinstance(v, int):
        return ("value", v, where)
    if isinstance(v, SetExpr):
        return ("set", list(ctx), v, where)
    if isinstance(v, Ref):
        return lookup(ctx, v.name, visited, mode)
    if isinstance(v, Closure):
        if mode == "pinned":
            return value_of(ctx, v.value, visited, where, mode)
        return value_of(v.frames, v.value, visited, where, mode)
    raise Unbound(repr(v))


def expectation(prog: Program, path: list[str], mode: str = "nix"):
    """('value', id) | ('set', ids) | ('unbound',) | ('cycle',)

    A path may end in ["->", key]: resolve the reference to a set first, then look `key` up in
    that set (its values are evaluated where the set is written)."""
    if "->" in path:
        i = path.index("->")
        base, kk = path[:i], path[i + 1]
        try:
            frames, v = frames_for(prog, base)
            res = evaluate(frames, len(frames) - 1, base[-1], frozenset(), mode, top=True)
            if res[0] != "set" or kk not in res[2].bindings:
                return ("unbound",)
            if not isinstance(res[2].bindings.get(kk), int):
                CROSSINGS[0] += 1
            if mode == "pinned":
                inner = frames + [Frame("rec", res[2].bindings)]
            else:
                inner = list(res[1]) + list(res[2].wrappers) + [_as_frame(res[2])]
            res2 = evaluate(inner, len(inner) - 1, kk, frozenset(), mode)
        except (Unbound, MissingArgument):
            return ("unbound",)
        except (Cycle, RecursionError):
            return ("cycle",)
        return ("value", res2[1]) if res2[0] == "value" else ("set", ids_of(res2[2]))
    try:
        frames, v = frames_for(prog, path)
    except MissingArgument:
        return ("unbound",)
    if mode == "pinned" and isinstance(v, InheritFrom) and frames[-1].kind == "plain":
        # AttributeSet.__getitem__ puts the set itself on the chain for an inherited key
        frames = frames[:-1] + [Frame("rec", frames[-1].bindings)]
    try:
        res = evaluate(frames, len(frames) - 1, path[-1], frozenset(), mode, top=True)
    except Unbound:
        return ("unbound",)
    except Cycle:
        return ("cycle",)
    except RecursionError:
        return ("cycle",)
    if res[0] == "value":
        return ("value", res[1])
    return ("set", ids_of(res[2]))


def defining_site(prog: Program, path: list[str], mode: str = "nix"):
    """(bindings dict, name) of the binding whose value a write through `path` must replace
    (C11), or ('unbound',) / ('cycle',)."""
    frames, v = frames_for(prog, path)
    try:
        res = evaluate(frames, len(frames) - 1, path[-1], frozenset(), mode, top=True)
    except Unbound as exc:
        # the first link is the binding at the path itself; the others are bindings on the chain
        links = getattr(exc, "links", [])[:-1]
        if links:
            return ("chain-to-unbound", links)
        return ("unbound",)
    except (Cycle, RecursionError):
        return ("cycle",)
    where = res[2] if res[0] == "value" else res[3]
    return ("site", where[0], where[1])


# ----------------------------------------------------------------------------- rendering

def _render_bindings(b: dict, indent: int, notes: dict | None = None) -> str:
    pad = " " * indent
    out = []
    notes = notes or {}
    for k, v in b.items():
        note = f"/* {notes[k]} */ " if k in notes else ""
        if isinstance(v, Inherit):
            out.append(f"{pad}inherit {k};")
        elif isinstance(v, InheritFrom):
            out.append(f"{pad}inherit ({v.src}) {k};")
        elif isinstance(v, int):
            out.append(f"{pad}{k} = {note}{v};")
        elif isinstance(v, Ref):
            out.append(f"{pad}{k} = {note}{v.name};")
        elif v.dotted and not v.wrappers and not v.rec and v.bindings \
                and all(isinstance(x, (int, Ref)) for x in v.bindings.values()):
            for kk, x in v.bindings.items():
                nn = f"/* {v.notes[kk]} */ " if kk in v.notes else ""
                out.append(f"{pad}{k}.{kk} = {nn}{x.name if isinstance(x, Ref) else x};")
        elif v.wrappers:
            out.append(f"{pad}{k} =\n{pad}  {_render_setexpr(v, indent + 2)};")
        else:
            out.append(f"{pad}{k} = {_render_setexpr(v, indent)};")
    return "\n".join(out)


def _render_setexpr(s: SetExpr, indent: int) -> str:
    """First line unindented, following lines indented by `indent`."""
    pad = " " * indent
    out = ""
    for fr in s.wrappers:
        if fr.kind == "let":
            out += "let\n" + _render_bindings(fr.bindings, indent + 2, fr.notes) + f"\n{pad}in\n{pad}"
        elif fr.kind == "opaque":
            out += fr.head + f"\n{pad}"
        else:
            env = fr.env_name if fr.env_name is not None else _inline_set(fr.bindings)
            out += f"with {env};\n{pad}"
    if s.inline and not s.wrappers and not s.notes and s.bindings \
            and all(isinstance(v, (int, Ref)) for v in s.bindings.values()):
        return ("rec " if s.rec else "") + _inline_set(s.bindings)
    body = _render_bindings(s.bindings, indent + 2, s.notes)
    out += ("rec " if s.rec else "") + "{\n" + body + f"\n{pad}}}"
    return out


def _inline_set(b: dict) -> str:
    parts = []
    for k, v in b.items():
        if isinstance(v, int):
            parts.append(f"{k} = {v};")
        elif isinstance(v, Ref):
            parts.append(f"{k} = {v.name};")
    return "{ " + " ".join(parts) + " }"


def _render_alias(prog: Program) -> str:
    name, idx = prog.alias
    s = prog.root
    out = ""
    for i, fr in enumerate(s.wrappers):
        if fr.kind == "let":
            out += "let\n" + _render_bindings(fr.bindings, 2, fr.notes)
            if i == idx:
                bare = SetExpr([], s.rec, s.bindings, s.inline, s.notes)
                out += ("\n" if fr.bindings else "") + f"  {name} = {_render_setexpr(bare, 2)};"
            out += "\nin\n"
        else:
            env = fr.env_name if fr.env_name is not None else _inline_set(fr.bindings)
            out += f"with {env};\n"
    return out + name + "\n"


def render(prog: Program) -> str:
    if prog.alias is not None:
        return _render_alias(prog)
    if prog.call is None:
        return _render_setexpr(prog.root, 0) + "\n"
    c = prog.call
    if c.holder is not None:
        h = c.holder
        inner = render(Program(prog.root, call=Call(c.outer, c.formals, c.arg))).rstrip("\n")
        inner = inner.replace("\n", "\n    ")
        body = _render_bindings(h.bindings, 2, h.notes)
        shell = SetExpr(h.wrappers, h.rec, {}, False)
        text = _render_setexpr(shell, 0)          # wrappers + `{\n\n}` (empty body)
        head = text[: text.rindex("{") + 1]
        return head + "\n" + (body + "\n" if body else "") + "  y =\n    " + inner + ";\n}\n"
    out = ""
    for fr in c.outer:
        out += "let\n" + _render_bindings(fr.bindings, 2) + "\nin\n"
    formals = ", ".join(n if d is None else f"{n} ? {d.name if isinstance(d, Ref) else d}"
                        for n, d in c.formals.items())
    arg = c.arg if isinstance(c.arg, str) else _inline_set(c.arg)
    out += "({ " + formals + " }:\n  " + _render_setexpr(prog.root, 2) + ") " + arg + "\n"
    return out


# ----------------------------------------------------------------------------- generation

def _gen_bindings(rng, names, outer_sets, depth, allow_nested, n_choices=(1, 2, 3)):
    b: dict = {}
    for n in rng.sample(names, min(len(names), rng.choice(n_choices))):
        k = rng.random()
        if k < 0.5:
            b[n] = uid()
        elif k < 0.78:
            b[n] = Ref(rng.choice(NAMES))
        elif k < 0.86 and outer_sets:
            b[n] = InheritFrom(rng.choice(outer_sets))
        elif k < 0.94:
            b[n] = Inherit()
        else:
            b[n] = uid()
    return b


def _set_name(rng, local_sets, counter) -> str:
    """Name of a let- or rec-bound set: fresh, or (shadowing) one that an outer scope binds too."""
    if local_sets and rng.random() < 0.35:
        return rng.choice(local_sets)
    counter[0] += 1
    return f"s{counter[0]}"


def gen_setexpr(rng: random.Random, depth: int, set_names: list[str], counter: list[int],
                select_env: bool = False, sel_envs_outer: list | None = None) -> SetExpr:
    wrappers: list[Frame] = []
    local_sets = list(set_names)
    sel_envs = list(sel_envs_outer or [])
    nwrap = rng.choice([0, 1, 1, 2, 2, 3, 4] if depth == 0 else [0, 0, 0, 1, 1, 2])
    for _ in range(nwrap):
        kind = rng.choice(["let", "let", "let", "with"])
        if kind == "let":
            earlier = [fr for fr in wrappers if fr.kind == "let"
                       and all(isinstance(v, (int, Ref)) for v in fr.bindings.values())]
            if len(earlier) >= 1 and len(wrappers) >= 2 and rng.random() < 0.25:
                # a layer that is textually identical to an earlier one (the same literals):
                # value equality of layers must not be mistaken for identity
                src = rng.choice(earlier)
                wrappers.append(Frame("let", {k: (Ref(v.name) if isinstance(v, Ref) else v)
                                              for k, v in src.bindings.items()}))
                continue
            sn = None
            if rng.random() < 0.4:
                sn = _set_name(rng, local_sets, counter)
            # the layer's own set is a possible `inherit (src)` source of its siblings: a let is
            # recursive, the source is looked up in the layer itself before any outer scope
            b = _gen_bindings(rng, NAMES, local_sets + ([sn, sn] if sn else []), depth, False)
            if sn:
                inner = {n: (uid() if rng.random() < 0.8 else Ref(rng.choice(NAMES)))
                         for n in rng.sample(NAMES, rng.choice([1, 2, 3]))}
                if select_env and rng.random() < 0.3:
                    # a set inside the set, usable as `with sN.lib;`
                    inner["lib"] = SetExpr([], False, {n: uid() for n in rng.sample(NAMES, rng.choice([1, 2]))})
                    sel_envs.append(sn + ".lib")
                b[sn] = SetExpr([], rng.random() < 0.2, inner)
                if rng.random() < 0.5:
                    items = list(b.items())
                    rng.shuffle(items)
                    b = dict(items)
                local_sets.append(sn)
            wrappers.append(Frame("let", b))
        else:
            if sel_envs and rng.random() < 0.3:
                wrappers.append(Frame("with", {}, env_name=rng.choice(sel_envs)))
            elif local_sets and rng.random() < 0.45:
                wrappers.append(Frame("with", {}, env_name=rng.choice(local_sets)))
            else:
                env = {n: (uid() if rng.random() < 0.85 else Ref(rng.choice(NAMES)))
                       for n in rng.sample(NAMES, rng.choice([1, 2, 3]))}
                wrappers.append(Frame("with", env))
    rec = rng.random() < 0.4
    bindings: dict = {}
    # reference bindings (the queries)
    for i in range(rng.choice([1, 2, 3])):
        counter[0] += 1
        bindings[f"r{counter[0]}"] = Ref(rng.choice(NAMES + (local_sets[:1] if rng.random() < 0.1 else [])))
    # names defined in the set itself (visible to siblings only when rec)
    bindings.update(_gen_bindings(rng, NAMES, local_sets, depth, False, n_choices=(0, 1, 2)))
    # a sibling set used as `inherit (src)` source from inside the set itself: found in the set
    # when it is `rec`, outside it (the outer binding of that name, if any) when it is not
    if rng.random() < 0.15:
        sn = _set_name(rng, local_sets, counter)
        inner = {n: uid() for n in rng.sample(NAMES, rng.choice([1, 2, 3]))}
        free = [n for n in inner if n not in bindings]
        if free:
            bindings[sn] = SetExpr([], False, inner)
            bindings[rng.choice(free)] = InheritFrom(sn)
    # nested sets
    if depth < 3:
        for _ in range(rng.choice([0, 0, 1, 1, 2] if depth == 0 else [0, 0, 1])):
            counter[0] += 1
            bindings[f"n{counter[0]}"] = gen_setexpr(rng, depth + 1, local_sets, counter,
                                                     select_env=select_env, sel_envs_outer=sel_envs)
    items = list(bindings.items())
    rng.shuffle(items)
    out = SetExpr(wrappers, rec, dict(items), inline=rng.random() < 0.3, dotted=rng.random() < 0.25)
    # block comments in front of some integer values (trivia that a write-through must keep in
    # place and must not carry elsewhere)
    for holder in [out] + [fr for fr in wrappers if fr.kind == "let"]:
        for k, v in holder.bindings.items():
            if isinstance(v, int) and rng.random() < 0.12:
                counter[0] += 1
                holder.notes[k] = f"k{counter[0]}"
    return out


def _close_with_environments(prog: Program, rng) -> None:
    """Alias documents: the set only sees the layers up to its own.  A `with NAME;` inside it
    whose NAME is bound in a later layer only would be a static error in Nix (undefined
    variable), not a scoping question: such an environment becomes a literal set."""
    def visit(s: SetExpr, frames: list[Frame], top: bool):
        ws = s.wrappers[: prog.alias[1] + 1] if top else s.wrappers
        for fr in ws:
            if fr.kind == "with" and fr.env_name is not None:
                try:
                    lookup_set(frames, fr.env_name, frozenset())
                except (Unbound, Cycle, RecursionError):
                    fr.env_name = None
                    fr.bindings = {n: uid() for n in rng.sample(NAMES, rng.choice([1, 2]))}
            frames = frames + [fr]
        frames = frames + [Frame("rec" if s.rec else "plain", s.bindings)]
        for fr in ws:
            for v in fr.bindings.values():
                if isinstance(v, SetExpr):
                    visit(v, frames, False)
        for v in s.bindings.values():
            if isinstance(v, SetExpr):
                visit(v, frames, False)
    visit(prog.root, [], True)


def count_bindings(s: SetExpr) -> int:
    n = 0
    for fr in s.wrappers:
        for v in fr.bindings.values():
            n += 1 + (count_bindings(v) if isinstance(v, SetExpr) else 0)
    for v in s.bindings.values():
        n += 1 + (count_bindings(v) if isinstance(v, SetExpr) else 0)
    return n


def generate(rng: random.Random, *, call: bool = False, alias: bool = False,
             opaque: bool = False, select_env: bool = False) -> Program:
    counter = [0]
    if call:
        outer: list[Frame] = []
        set_names: list[str] = []
        for _ in range(rng.choice([0, 1, 1, 2])):
            b = _gen_bindings(rng, NAMES, set_names, 0, False)
            if rng.random() < 0.6:
                counter[0] += 1
                sn = f"s{counter[0]}"
                b[sn] = SetExpr([], False, {n: (uid() if rng.random() < 0.8 else Ref(rng.choice(NAMES)))
                                            for n in rng.sample(NAMES, rng.choice([1, 2, 3]))})
                set_names.append(sn)
            outer.append(Frame("let", b))
        formals = {}
        for n in rng.sample(NAMES, rng.choice([1, 2, 3])):
            k = rng.random()
            formals[n] = None if k < 0.5 else (uid() if k < 0.8 else Ref(rng.choice(NAMES)))
        if set_names and rng.random() < 0.4:
            arg: object = rng.choice(set_names)
        else:
            arg = {}
            for n in NAMES:
                if n in formals and (formals[n] is None or rng.random() < 0.4) and rng.random() < 0.93:
                    arg[n] = uid() if rng.random() < 0.75 else Ref(rng.choice(NAMES))
        root = gen_setexpr(rng, 1, set_names, counter)
        holder = None
        if rng.random() < 0.5:
            # the call is not the document: it is the value of `y` in a set that has scopes of its
            # own, which may bind the argument's name (shadowed by the call's own let) and the
            # names the body uses
            hw: list[Frame] = []
            for _ in range(rng.choice([1, 1, 2])):
                if rng.random() < 0.8:
                    b = {n: (uid() if rng.random() < 0.8 else Ref(rng.choice(NAMES)))
                         for n in rng.sample(NAMES, rng.choice([1, 2, 3]))}
                    if isinstance(arg, str) and rng.random() < 0.7:
                        b[arg] = SetExpr([], False, {n: uid() for n in formals})
                    hw.append(Frame("let", b))
                else:
                    hw.append(Frame("with", {n: uid() for n in rng.sample(NAMES, rng.choice([1, 2]))}))
            hb = {n: uid() for n in rng.sample(NAMES, rng.choice([0, 1, 2]))}
            holder = SetExpr(hw, rng.random() < 0.4, hb)
        prog = Program(root, call=Call(outer, formals, arg, holder))
        prog.text = render(prog)
        prog.n_bindings = count_bindings(root) + sum(len(f.bindings) for f in outer) + len(formals) + 5 \
            + (count_bindings(holder) if holder is not None else 0)
        return prog
    root = gen_setexpr(rng, 0, [], counter, select_env=select_env)
    if opaque and root.wrappers:
        # a head that binds none of the names between the scopes and the set (function head,
        # assert): the scopes before it still enclose the set
        pos = rng.randrange(1, len(root.wrappers) + 1)
        root.wrappers.insert(pos, Frame("opaque", {}, head=rng.choice(
            ["{ pkgs }:", "pkgs:", "assert true;", "{ pkgs, lib, ... }:", "final: prev:"])))
    prog = Program(root)
    if alias:
        lets = [i for i, fr in enumerate(root.wrappers) if fr.kind == "let"]
        if lets:
            counter[0] += 1
            prog.alias = (f"pkg{counter[0]}", rng.choice(lets))
            _close_with_environments(prog, rng)
    prog.text = render(prog)
    prog.n_bindings = count_bindings(root)
    return prog


def queries(prog: Program) -> list[list[str]]:
    """Key paths to every binding of the target tree whose value is a reference or an inherit."""
    out: list[list[str]] = []

    def walk(s: SetExpr, prefix: list[str]):
        for k, v in s.bindings.items():
            if isinstance(v, (Ref, Inherit, InheritFrom)):
                out.append(prefix + [k])
            elif isinstance(v, SetExpr):
                walk(v, prefix + [k])
    walk(prog.root, [])
    if prog.call is None:
        # dereference through an alias: a reference that denotes a let-bound set, then a key of it
        for q in list(out):
            try:
                frames, v = frames_for(prog, q)
                res = evaluate(frames, len(frames) - 1, q[-1], frozenset())
            except Exception:  # noqa: BLE001
                continue
            if res[0] == "set":
                for kk, vv in res[2].bindings.items():
                    if isinstance(vv, (int, Ref)):
                        out.append(q + ["->", kk])
    return out


def features(prog: Program, path: list[str]) -> dict:
    """Mechanism-level description of what the lookup has to get right (witness keys)."""
    if "->" in path:
        f = features(prog, path[: path.index("->")])
        f["via"] = "deref-" + f.get("via", "?")
        return f
    try:
        frames, v = frames_for(prog, path)
    except MissingArgument:
        return {"via": "call", "lexical": "missing-argument"}
    name = v.name if isinstance(v, Ref) else path[-1]
    here = frames[-1]
    outer = frames[:-1] if isinstance(v, (Inherit,)) else frames
    lex = [i for i, f in enumerate(outer) if f.kind in ("let", "rec") and name in f.bindings]
    withs = [i for i, f in enumerate(outer) if f.kind == "with" and (f.env_name is not None or name in f.bindings)]
    kinds = sorted({f.kind for f in frames})
    return {
        "via": type(v).__name__.lower(),
        "lexical": (outer[max(lex)].kind if lex else "none"),
        "lexical_count": str(min(len(lex), 3)),
        "with_inside_lexical": "yes" if (lex and withs and max(withs) > max(lex)) else "no",
        "with_candidate": "yes" if withs else "no",
        "depth": str(min(len(path), 4)),
        "frames": "+".join(kinds),
    }
