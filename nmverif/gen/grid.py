"""G-grid: deterministic construct x gap x trivia-class x context cross product.

Template syntax: tokens separated by `·` (free gap) or `^` (glued gap); the
blanks in front of a token are the default (canonical one-line) gap.  E, F, G
are filler expressions.  A cell replaces exactly one gap by one trivia class;
all other gaps keep their default text.
"""

from __future__ import annotations

import hashlib
import random
import re

from nmverif.gen import trivia
from nmverif.oracle import cst

FILLERS = {"E": "x", "F": "1", "G": '"s"'}

# (id, level, template)
TEMPLATES: list[tuple[str, str, str]] = [
    ("file", "fn", "E"),
    ("set0", "simple", "{· }"),
    ("set1", "simple", "{· a· =· E·;· }"),
    ("set2", "simple", "{· a· =· E·;· b· =· F·;· }"),
    ("rec1", "simple", "rec· {· a· =· E·;· }"),
    ("setpath", "simple", "{· a·.·b· =· E·;· }"),
    ("setq", "simple", "{· \"q\"· =· E·;· }"),
    ("setdyn", "simple", "{· ${·E·}· =· F·;· }"),
    ("inh", "simple", "{· inherit· a· b·;· }"),
    ("inhfrom", "simple", "{· inherit· (·E·)· a· b·;· }"),
    ("inhq", "simple", "{· inherit· \"q\"·;· }"),
    ("inhdyn", "simple", "{· inherit· (·E·)· ${·F·}·;· }"),
    ("inhdyn2", "simple", "{· inherit· a· ${·F·}·;· }"),
    ("list0", "simple", "[· ]"),
    ("list1", "simple", "[· E· ]"),
    ("list2", "simple", "[· E· F· ]"),
    ("let1", "fn", "let· a· =· E·;· in· F"),
    ("let2", "fn", "let· a· =· E·;· b· =· F·;· in· a"),
    ("let0", "fn", "let· in· E"),
    ("letinh", "fn", "let· inherit· a·;· in· E"),
    ("with", "fn", "with· E·;· F"),
    ("assert", "fn", "assert· E·;· F"),
    ("if", "fn", "if· E· then· F· else· G"),
    ("lam", "fn", "a·:· E"),
    ("lam2", "fn", "a·:· b·:· E"),
    ("lamf0", "fn", "{· }·:· E"),
    ("lamf1", "fn", "{· a· }·:· E"),
    ("lamf2", "fn", "{· a·,· b· }·:· E"),
    ("lamfd", "fn", "{· a· ?· E·,· b· }·:· F"),
    ("lamfe", "fn", "{· a·,· ...· }·:· E"),
    ("lame", "fn", "{· ...· }·:· E"),
    ("lamat1", "fn", "n·@·{· a· }·:· E"),
    ("lamat2", "fn", "{· a· }·@·n·:· E"),
    ("app1", "app", "f· E"),
    ("app2", "app", "f· E· F"),
    ("appset", "app", "f· {· a· =· E·;· }"),
    ("import", "app", "import· ./p"),
    ("apprec", "app", "f· rec· {· }"),
    ("sel1", "sel", "E·.·a"),
    ("sel2", "sel", "E·.·a·.·b"),
    ("selor", "sel", "E·.·a· or· F"),
    ("selq", "sel", "E·.·\"q\""),
    ("seldyn", "sel", "E·.·${·F·}"),
    ("has1", "op", "E· ?· a"),
    ("has2", "op", "E· ?· a·.·b"),
    ("not", "op", "!·E"),
    ("neg", "op", "-·E"),
    ("chain_pp", "op", "E· ++· F· ++· G"),
    ("chain_up", "op", "E· //· F· //· G"),
    ("mixed", "op", "E· +· F· *· G"),
    ("paren", "simple", "(·E·)"),
    ("str", "simple", "\"a\\n^${·E·}^b\""),
    ("istr", "simple", "''a ^${·E·}^ b''"),
    ("istrml", "simple", "''\n    a\n    ^${·E·}^\n  ''"),
    ("pathi", "simple", "./a/^${·E·}^/b"),
]
for _op in ["==", "!=", "<", "<=", ">", ">=", "&&", "||", "+", "-", "*", "/", "->", "//", "++"]:
    TEMPLATES.append((f"bin{_op}", "op", f"E· {_op}· F"))

LEVELS = {"fn": 4, "op": 3, "app": 2, "sel": 1, "simple": 0}

# (id, prefix, default pre-gap, default post-gap, suffix, max level accepted)
CONTEXTS = [
    ("top", "", "", "", "", "fn"),
    ("binding", "{\n  k =", " ", "", ";\n  z = 2;\n}", "fn"),
    ("listel", "[\n  y", "\n  ", "\n", "]", "sel"),
    ("paren", "(", "", "", ")", "fn"),
    ("lambody", "a:", " ", "", "", "fn"),
    ("letbody", "let\n  k = 1;\nin", "\n", "", "", "fn"),
    ("callarg", "f", " ", "", "", "sel"),
    ("ifbranch", "if c then", " ", " ", "else 0", "fn"),
]

GRID_CLASSES = [c for c in trivia.ALL_CLASSES if c != "min"]


def parse_template(tpl: str) -> tuple[list[str], list[str], list[bool]]:
    """-> tokens, default gaps (len n-1), glue flags."""
    parts = re.split(r"([·^])", tpl)
    tokens: list[str] = []
    gaps: list[str] = []
    glue: list[bool] = []
    pending_glue = False
    first = True
    for part in parts:
        if part == "·":
            pending_glue = False
            continue
        if part == "^":
            pending_glue = True
            continue
        if pending_glue:
            tok = part
            lead = ""
        else:
            tok = part.lstrip(" ")
            lead = part[: len(part) - len(tok)]
        for ph, val in FILLERS.items():
            if tok == ph:
                tok = val
        if not first:
            gaps.append(lead)
            glue.append(pending_glue)
        tokens.append(tok)
        first = False
        pending_glue = False
    return tokens, gaps, glue


class Cell:
    __slots__ = ("tpl", "ctx", "gap", "cls", "text", "ref_text", "n_comments", "wrapped")


def _stable_rng(*parts) -> random.Random:
    h = hashlib.sha1("|".join(str(p) for p in parts).encode()).digest()
    return random.Random(int.from_bytes(h[:8], "big"))


def enumerate_cells(contexts=None, templates=None, classes=None):
    """Yield (tpl_id, ctx_id, gap_index, cls) for the whole grid (no rendering)."""
    for tid, level, tpl in TEMPLATES:
        if templates and tid not in templates:
            continue
        tokens, gaps, glue = parse_template(tpl)
        free = [i for i, g in enumerate(glue) if not g]
        for cid, *_ in CONTEXTS:
            if contexts and cid not in contexts:
                continue
            for gi in ["pre"] + free + ["post"]:
                for cls in (classes or GRID_CLASSES):
                    yield tid, cid, gi, cls


_TPL = {tid: (level, tpl) for tid, level, tpl in TEMPLATES}
_CTX = {c[0]: c for c in CONTEXTS}


def render_cell(tid: str, cid: str, gi, cls: str | None):
    """Render one cell.  cls None -> the default rendering (reference).

    Returns (text, n_comments) or None when the cell is not constructible."""
    level, tpl = _TPL[tid]
    tokens, gaps, glue = parse_template(tpl)
    _, prefix, pre, post, suffix, maxlevel = _CTX[cid]
    wrapped = LEVELS[level] > LEVELS[maxlevel]
    if wrapped:
        tokens = ["("] + tokens + [")"]
        gaps = [""] + gaps + [""]
        glue = [False] + glue + [False]
        if isinstance(gi, int):
            gi = gi + 1
    serial = trivia.Serial()
    rng = _stable_rng(tid, cid, gi, cls)
    gaps = list(gaps)
    if cls is not None:
        if gi == "pre":
            prev_tok = prefix[-1:] or ""
            if cid == "top":
                pre = trivia.edge_text(cls, rng, serial, -1, True)
            else:
                pre = trivia.gap_text(cls, rng, serial, -1, prev_tok or "x", tokens[0])
        elif gi == "post":
            if cid in ("top", "lambody", "letbody", "callarg"):
                post = trivia.edge_text(cls, rng, serial, -2, False)
            else:
                post = trivia.gap_text(cls, rng, serial, -2, tokens[-1], suffix[:1] or "x")
        else:
            gaps[gi] = trivia.gap_text(cls, rng, serial, gi, tokens[gi], tokens[gi + 1])
    body = tokens[0]
    for i in range(1, len(tokens)):
        body += ("" if glue[i - 1] else gaps[i - 1]) + tokens[i]
    text = prefix + pre + body + post + suffix
    return text, serial.n


def build_cell(tid: str, cid: str, gi, cls: str):
    """Self-checked cell text, or None if not constructible."""
    ref = render_cell(tid, cid, gi, None)
    ref_text, _ = ref
    rref = cst.read(ref_text)
    if rref.error:
        return None
    out = render_cell(tid, cid, gi, cls)
    text, ncom = out
    rd = cst.read(text)
    if rd.error or rd.tokens != rref.tokens or len(rd.comments) != ncom:
        return None
    if text == ref_text:
        return None
    return text, ncom


# ------------------------------------------------------------------ adjacency
ADJ_ATOMS = {
    "int": "17", "float": "1.5", "ident": "x", "str": '"s"', "path": "./p", "spath": "<n>",
    "paren": "(y)", "set": "{ }", "list": "[ ]", "sel": "x.y", "neg": "-1", "abs": "/etc/p",
    "home": "~/p", "istr": "''i''", "null": "null", "app": "f x",
}
ADJ_FORMS = [
    ("select", "{A}{g}.{g}a"), ("select_or", "{A}{g}.{g}a{g2}or{g2}{B}"), ("neg", "-{g}{A}"),
    ("not", "!{g}{A}"), ("sub", "{A}{g}-{g}{B}"), ("div", "{A}{g}/{g}{B}"),
    ("app", "{A}{g2}{B}"), ("has", "{A}{g}?{g}a"), ("concat", "{A}{g}++{g}{B}"),
    ("update", "{A}{g}//{g}{B}"), ("lt", "{A}{g}<{g}{B}"), ("list2", "[{g}{A}{g2}{B}{g}]"),
    ("bind", "{{ a ={g}{A}{g}; }}"), ("lam", "a:{g}{A}"), ("mul", "{A}{g}*{g}{B}"),
    ("add", "{A}{g}+{g}{B}"), ("impl", "{A}{g}->{g}{B}"), ("sel_neg", "-{g}{A}{g}.{g}a"),
]


def adjacency_cases():
    """Ordered pairs of token kinds as neighbours, tight and spaced."""
    for fid, form in ADJ_FORMS:
        for an, a in ADJ_ATOMS.items():
            for bn, b in (ADJ_ATOMS.items() if "{B}" in form else [("", "")]):
                for gname, g, g2 in (("tight", "", " "), ("spaced", " ", " "), ("wide", "  ", "  ")):
                    text = form.format(A=a, B=b, g=g, g2=g2)
                    yield f"adj:{fid}:{an}:{bn}:{gname}", text
