"""Grammar-level Nix program generator (G-nix).

Produces a flat token list; the sentinel GLUE between two tokens means the gap
between them must stay empty (string / path content).  Every other gap may
receive arbitrary trivia (see trivia.py).  Generation follows the grammar
levels of Nix (function / if / operators / application / select / simple) so
nesting is syntactically valid without extra parentheses; the rendered text is
self-checked by the oracle parser before use.
"""

from __future__ import annotations

import random

GLUE = object()

KEYWORDS = {"let", "in", "with", "assert", "if", "then", "else", "rec", "inherit", "or",
            "import", "true", "false", "null"}

_NAME_POOL = [
    "a", "b", "c", "x", "y", "z", "f", "g", "pkgs", "lib", "stdenv", "foo", "bar",
    "baz", "name", "src", "meta", "self", "super", "cfg", "foo-bar", "x'", "_p",
    "a1", "mkDerivation", "buildInputs", "version", "q_r", "n-1x", "callPackage",
]

ASSOC_OPS = ["++", "*", "/", "+", "-", "//", "&&", "||", "->"]
CMP_OPS = ["==", "!=", "<", "<=", ">", ">="]

_STR_PIECES = [
    "s", "hello world", "a\\nb", "\\\"q\\\"", "\\\\", "é→", "x y  z", "$", "\\${x}",
    "#notcomment", "/* no */", "''", "a.b", "1 + 2", "\\t", "",
]
_ISTR_PIECES = [
    "i", "line one", "''$", "'''", "''\\n", "$", "é", "# no", "/* no */", "\"q\"", "a  b",
]


class Gen:
    def __init__(self, rng: random.Random, *, max_depth: int = 4, budget: int = 200,
                 rare: bool = True, sensible: bool = True, unicode_ok: bool = True):
        self.rng = rng
        self.max_depth = max_depth
        self.budget = budget
        self.rare = rare
        self.sensible = sensible
        self.unicode_ok = unicode_ok
        self.uid = 0

    # ------------------------------------------------------------------ utils
    def name(self) -> str:
        return self.rng.choice(_NAME_POOL)

    def fresh_names(self, k: int) -> list[str]:
        pool = list(_NAME_POOL)
        self.rng.shuffle(pool)
        names = pool[:k]
        while len(names) < k:
            self.uid += 1
            names.append(f"n{self.uid}")
        return names

    def spend(self, n: int = 1) -> None:
        self.budget -= n

    def low(self, depth: int) -> bool:
        return depth >= self.max_depth or self.budget <= 0

    # ------------------------------------------------------------- top levels
    def program(self) -> list:
        return self.expr(0)

    def expr(self, depth: int) -> list:
        """expr_function level."""
        r = self.rng
        if self.low(depth):
            return self.op(depth)
        k = r.random()
        self.spend()
        if k < 0.10:
            return self.lambda_(depth)
        if k < 0.16:
            return ["assert"] + self.expr(depth + 1) + [";"] + self.expr(depth + 1)
        if k < 0.23:
            return ["with"] + self.expr(depth + 1) + [";"] + self.expr(depth + 1)
        if k < 0.32:
            return self.let(depth)
        if k < 0.39:
            return (["if"] + self.expr(depth + 1) + ["then"] + self.expr(depth + 1)
                    + ["else"] + self.expr(depth + 1))
        return self.op(depth)

    def lambda_(self, depth: int) -> list:
        r = self.rng
        k = r.random()
        if k < 0.35:
            head = [self.name(), ":"]
        else:
            n = r.choice([0, 1, 1, 2, 2, 3, 4])
            names = self.fresh_names(n)
            formals: list = ["{"]
            for i, nm in enumerate(names):
                if i:
                    formals.append(",")
                formals.append(nm)
                if r.random() < 0.3:
                    formals += ["?"] + self.expr(depth + 2)
            if r.random() < 0.3:
                if names:
                    formals.append(",")
                formals.append("...")
            formals.append("}")
            k2 = r.random()
            if k2 < 0.15:
                head = [self.name(), "@"] + formals + [":"]
            elif k2 < 0.3:
                head = formals + ["@", self.name(), ":"]
            else:
                head = formals + [":"]
        return head + self.expr(depth + 1)

    def let(self, depth: int) -> list:
        r = self.rng
        n = r.choice([1, 1, 1, 2, 2, 2, 3, 3, 4])
        return ["let"] + self.binds(depth, n) + ["in"] + self.expr(depth + 1)

    # --------------------------------------------------------------- bindings
    def attrname(self) -> list:
        r = self.rng
        k = r.random()
        if k < 0.85:
            return [self.name()]
        if k < 0.95:
            return self.string(0, interp=False, simple=True)
        return ["${"] + self.select(self.max_depth) + ["}"]

    def binds(self, depth: int, n: int) -> list:
        r = self.rng
        out: list = []
        names = self.fresh_names(n + 2)
        used_roots: set[str] = set()
        i = 0
        while i < n:
            self.spend()
            k = r.random()
            nm = names[i]
            if k < 0.10:
                cnt = r.choice([1, 2, 3])
                inh = ["inherit"]
                if r.random() < 0.4:
                    inh += ["("] + self.expr(depth + 2) + [")"]
                for j in range(cnt):
                    if r.random() < 0.1:
                        inh += self.string(0, interp=False, simple=True, tag=f"{nm}{j}")
                    elif r.random() < 0.04:
                        # accepted by the grammar (an `interpolation` among the inherited attrs)
                        inh += ["${", self.name(), "}"]
                    else:
                        inh.append(f"{nm}{j}" if j else nm)
                out += inh + [";"]
            elif k < 0.25:
                # attrpath family under a fresh root
                leaves = r.choice([1, 2, 2, 3])
                subs = self.fresh_names(leaves)
                for s in subs:
                    path = [nm, ".", s]
                    if r.random() < 0.2:
                        path += [".", self.name()]
                    out += path + ["="] + self.expr(depth + 1) + [";"]
            elif k < 0.30:
                out += self.string(0, interp=False, simple=True, tag=nm) + ["="] + self.expr(depth + 1) + [";"]
            else:
                out += [nm, "="] + self.expr(depth + 1) + [";"]
            used_roots.add(nm)
            i += 1
        return out

    # ------------------------------------------------------------- operators
    def op(self, depth: int) -> list:
        r = self.rng
        if self.low(depth) and r.random() < 0.7:
            return self.app(depth)
        k = r.random()
        self.spend()
        if k < 0.50:
            return self.app(depth)
        if k < 0.56:
            return ["!"] + self.operand(depth + 1)
        if k < 0.62:
            return ["-"] + self.neg_operand(depth + 1)
        if k < 0.68:
            path = [self.name()]
            while r.random() < 0.3:
                path += [".", self.name()]
            return self.operand(depth + 1) + ["?"] + path
        if k < 0.90:
            # associative chain
            n = r.choice([2, 2, 3, 3, 4, 6])
            same = r.random() < 0.6
            opn = r.choice(ASSOC_OPS)
            out = self.operand(depth + 1)
            for _ in range(n - 1):
                out += [opn if same else r.choice(ASSOC_OPS)] + self.operand(depth + 1)
            return out
        return self.operand(depth + 1) + [r.choice(CMP_OPS)] + self.operand(depth + 1)

    def operand(self, depth: int) -> list:
        r = self.rng
        if r.random() < 0.15 and not self.low(depth):
            return ["("] + self.expr(depth + 1) + [")"]
        return self.app(depth)

    def neg_operand(self, depth: int) -> list:
        r = self.rng
        k = r.random()
        if k < 0.4:
            return [str(r.randrange(0, 1000))]
        if k < 0.7:
            return [self.name()]
        return ["("] + self.expr(depth + 1) + [")"]

    # ----------------------------------------------------------- application
    def app(self, depth: int) -> list:
        r = self.rng
        if self.low(depth) and r.random() < 0.8:
            return self.select(depth)
        k = r.random()
        if k < 0.70:
            return self.select(depth)
        self.spend()
        if k < 0.76:
            return ["import"] + self.select_arg(depth + 1, import_arg=True)
        head = self.callee(depth)
        nargs = r.choice([1, 1, 1, 2, 3])
        out = head
        for _ in range(nargs):
            if r.random() < 0.12:
                out += ["rec"] + self.attrset(depth + 1)
            else:
                out += self.select_arg(depth + 1)
        return out

    def callee(self, depth: int) -> list:
        r = self.rng
        k = r.random()
        if k < 0.6:
            return [self.name()]
        if k < 0.85:
            return [self.name(), ".", self.name()]
        return ["("] + self.expr(depth + 1) + [")"]

    def select_arg(self, depth: int, import_arg: bool = False) -> list:
        r = self.rng
        if import_arg and r.random() < 0.6:
            return self.path()
        return self.select(depth)

    # ---------------------------------------------------------------- select
    def select(self, depth: int) -> list:
        r = self.rng
        k = r.random()
        if k < 0.78 or self.budget <= -50:
            return self.simple(depth)
        self.spend()
        base = self.selectable(depth)
        path: list = [".", self.sel_attr(depth)]
        while r.random() < 0.35:
            path += [".", self.sel_attr(depth)]
        flat: list = []
        for p in path:
            if isinstance(p, list):
                flat += p
            else:
                flat.append(p)
        out = base + flat
        if r.random() < 0.25:
            out += ["or"] + self.select(depth + 1)
        return out

    def sel_attr(self, depth: int):
        r = self.rng
        k = r.random()
        if k < 0.85:
            return self.name()
        if k < 0.93:
            return self.string(0, interp=False, simple=True)
        return ["${"] + [self.name()] + ["}"]

    def selectable(self, depth: int) -> list:
        r = self.rng
        k = r.random()
        if k < 0.7 or self.low(depth):
            return [self.name()]
        if k < 0.85:
            return ["("] + self.expr(depth + 1) + [")"]
        return self.attrset(depth + 1)

    # ---------------------------------------------------------------- simple
    def simple(self, depth: int) -> list:
        r = self.rng
        k = r.random()
        low = self.low(depth)
        if k < 0.28:
            return [self.name()]
        if k < 0.36:
            return [self.int_lit()]
        if k < 0.40:
            return [r.choice(["1.5", "0.25", "3.", ".5", "1.0e3", "2.5e-2", "12.75"])]
        if k < 0.50:
            return self.string(depth)
        if k < 0.55:
            return self.istring(depth)
        if k < 0.61:
            return self.path()
        if k < 0.64:
            return [r.choice(["true", "false", "null"])]
        if self.rare and k < 0.648:
            return [r.choice(["http://example.org/x", "x:y", "mailto:a@b.c"])]
        if low:
            return [self.name()]
        self.spend()
        if k < 0.74:
            return ["("] + self.expr(depth + 1) + [")"]
        if k < 0.87:
            if self.rare and r.random() < 0.03:
                return ["let"] + self.attrset(depth + 1, must_body=True)
            return (["rec"] if r.random() < 0.15 else []) + self.attrset(depth + 1)
        return self.list_(depth + 1)

    def int_lit(self) -> str:
        r = self.rng
        k = r.random()
        if k < 0.8:
            return str(r.randrange(0, 100000))
        if k < 0.9:
            return "0" * r.choice([1, 2]) + str(r.randrange(0, 100))
        return str(r.randrange(10**9, 10**12))

    def attrset(self, depth: int, must_body: bool = False) -> list:
        r = self.rng
        if self.low(depth):
            n = r.choice([0, 1]) if not must_body else 1
        else:
            n = r.choice([0, 1, 1, 2, 2, 3, 4])
        if must_body:
            n = max(n, 1)
            body = self.binds(depth, n - 1) + ["body", "="] + self.expr(depth + 1) + [";"]
            return ["{"] + body + ["}"]
        return ["{"] + self.binds(depth, n) + ["}"]

    def list_(self, depth: int) -> list:
        r = self.rng
        n = r.choice([0, 1, 1, 2, 3, 5]) if not self.low(depth) else r.choice([0, 1])
        out: list = ["["]
        for _ in range(n):
            out += self.select(depth + 1)
        return out + ["]"]

    # --------------------------------------------------------------- literals
    def string(self, depth: int, interp: bool = True, simple: bool = False,
               tag: str | None = None) -> list:
        r = self.rng
        if simple:
            body = tag if tag is not None else r.choice(["q", "a b", "k.l", "é", "x-y"])
            return ['"' + body + '"']
        pieces = r.choice([0, 1, 1, 2])
        out: list = []
        cur = '"'
        for _ in range(pieces):
            piece = r.choice(_STR_PIECES)
            if not self.unicode_ok and not piece.isascii():
                piece = "u"
            cur += piece
            if interp and r.random() < 0.3 and not self.low(depth):
                out += [cur, GLUE, "${"] + self.expr(depth + 2) + ["}", GLUE]
                cur = ""
        cur += '"'
        out.append(cur)
        return out

    def istring(self, depth: int) -> list:
        r = self.rng
        multi = r.random() < 0.5
        out: list = []
        cur = "''"
        lines = r.choice([1, 2, 3]) if multi else 1
        for li in range(lines):
            if multi:
                cur += "\n" + " " * r.choice([2, 4, 4, 6])
            piece = r.choice(_ISTR_PIECES)
            if not self.unicode_ok and not piece.isascii():
                piece = "u"
            cur += piece
            if r.random() < 0.25 and not self.low(depth):
                out += [cur, GLUE, "${"] + self.expr(depth + 2) + ["}", GLUE]
                cur = ""
        if multi:
            cur += "\n" + " " * r.choice([0, 2])
        cur += "''"
        out.append(cur)
        return out

    def path(self) -> list:
        r = self.rng
        k = r.random()
        if k < 0.35:
            return ["./" + r.choice(["a", "default.nix", "b/c.nix", "x-y_z", "d.e/f"])]
        if k < 0.5:
            return ["../" + r.choice(["a", "lib/x.nix"])]
        if k < 0.62:
            return ["/" + r.choice(["etc/nixos", "a/b", "nix/store/x"])]
        if k < 0.72:
            return ["~/" + r.choice(["a", ".config/x"])]
        if k < 0.84:
            return [r.choice(["<nixpkgs>", "<nixpkgs/lib>", "<a>"])]
        if k < 0.92:
            return [r.choice(["a/b", "foo/bar.nix"])]
        return ["./a/", GLUE, "${", self.name(), "}", GLUE, r.choice(["/b", ".nix", "/c/d"])]


def tokens_and_glue(seq: list) -> tuple[list[str], list[bool]]:
    """Flatten to (tokens, glue) where glue[i] says gap i (after token i) is closed."""
    toks: list[str] = []
    glue: list[bool] = []
    pending = False
    for item in seq:
        if item is GLUE:
            pending = True
            continue
        if toks:
            glue.append(pending)
        pending = False
        toks.append(item)
    return toks, glue


def generate(rng: random.Random, **kw) -> tuple[list[str], list[bool]]:
    g = Gen(rng, **kw)
    return tokens_and_glue(g.program())
