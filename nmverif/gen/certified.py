"""Certified canonical seeds: literals the repository's own tests pass to validate_nixfmt_rfc."""

from __future__ import annotations

import ast
import os
import re


def _const(node):
    if isinstance(node, ast.Constant) and isinstance(node.value, str):
        return node.value
    if isinstance(node, ast.Call) and isinstance(node.func, ast.Attribute) and node.func.attr in ("strip", "lstrip", "rstrip"):
        base = _const(node.func.value)
        if base is None:
            return None
        args = [a.value for a in node.args if isinstance(a, ast.Constant)]
        return getattr(base, node.func.attr)(*args)
    return None


def certified_sources(repo: str) -> list[tuple[str, str]]:
    """[(test name, text)] for sources asserted to be nixfmt-valid and reproduced unchanged."""
    path = os.path.join(repo, "tests", "test_reproduce_simple.py")
    out: list[tuple[str, str]] = []
    try:
        tree = ast.parse(open(path, encoding="utf-8").read())
    except OSError:
        return out
    for fn in tree.body:
        if not isinstance(fn, ast.FunctionDef):
            continue
        assigns: dict[str, str] = {}
        validated: list[str] = []
        reproduced = False
        for node in ast.walk(fn):
            if isinstance(node, ast.Assign) and len(node.targets) == 1 and isinstance(node.targets[0], ast.Name):
                val = _const(node.value)
                if val is not None:
                    assigns[node.targets[0].id] = val
            if isinstance(node, ast.Call) and getattr(node.func, "id", "") == "validate_nixfmt_rfc" and node.args:
                a = node.args[0]
                if isinstance(a, ast.Name):
                    validated.append(a.id)
                else:
                    v = _const(a)
                    if v is not None:
                        assigns["__lit%d" % len(assigns)] = v
                        validated.append("__lit%d" % (len(assigns) - 1))
            if isinstance(node, ast.Compare):
                src = ast.unparse(node)
                if "parse_and_rebuild" in src and "==" in src:
                    reproduced = True
        for name in validated:
            text = assigns.get(name)
            # only sources the test expects to come back unchanged
            if text is not None and reproduced and name == "source":
                out.append((fn.name, text))
    return out


_IDENT = re.compile(r"\b[a-zA-Z_][a-zA-Z0-9_']*\b")
_KEEP = {"let", "in", "with", "assert", "if", "then", "else", "rec", "inherit", "or", "true", "false",
         "null", "import", "builtins"}


def rename_identifiers(text: str, rng) -> str:
    """Consistent renaming of identifiers outside strings/comments (length kept <= original + 4)."""
    from nmverif.oracle import cst
    data = text.encode()
    root = cst.parse_bytes(data).root_node
    mapping: dict[bytes, bytes] = {}
    pieces = []
    pos = 0
    for lf in cst.iter_leaves(root):
        if lf.type != "identifier" or lf.text.decode() in _KEEP:
            continue
        name = lf.text
        if name not in mapping:
            new = name + rng.choice([b"", b"X", b"_2", b"Ab"])
            mapping[name] = new
        pieces.append(data[pos:lf.start])
        pieces.append(mapping[name])
        pos = lf.end
    pieces.append(data[pos:])
    return b"".join(pieces).decode()


def embed_as_binding(text: str, name: str = "wrapped") -> str | None:
    """`{\\n  name = <text shifted by 2>;\\n}` for seeds that are a single absorbable value."""
    t = text.rstrip("\n")
    if not t or t.lstrip().startswith("#"):
        return None
    first = t.split("\n")[0]
    # only values that start on the binding line in RFC style (sets, lists, calls with set argument)
    if not (t.startswith("{") or t.startswith("[")) or t.endswith(":") or "}:" in first:
        return None
    lines = t.split("\n")
    shifted = [lines[0]] + [("  " + ln if ln else ln) for ln in lines[1:]]
    return "{\n  " + name + " = " + "\n".join(shifted) + ";\n}\n"
