"""Entry point: ./check <ID> [--tier quick|thorough] [--replay FILE]"""

from __future__ import annotations

import argparse
import importlib
import json
import os
import subprocess
import sys

ROOT = os.path.dirname(os.path.dirname(os.path.abspath(__file__)))


def ensure_deps() -> None:
    deps = os.path.join(ROOT, ".deps")
    if not os.path.isdir(os.path.join(deps, "icontract")):
        subprocess.run([os.path.join(ROOT, "setup.sh")], cwd=ROOT, check=False,
                       stdout=subprocess.DEVNULL, stderr=subprocess.DEVNULL)
    if deps not in sys.path:
        sys.path.append(deps)


def main(argv=None) -> int:
    ap = argparse.ArgumentParser()
    ap.add_argument("prop")
    ap.add_argument("--tier", default=os.environ.get("VERIF_TIER", "quick"),
                    choices=["quick", "thorough"])
    ap.add_argument("--seed", type=int, default=int(os.environ.get("VERIF_SEED", "0") or 0))
    ap.add_argument("--replay")
    args = ap.parse_args(argv)
    ensure_deps()
    prop = args.prop.upper()
    check = importlib.import_module(f"nmverif.checks.{prop.lower()}")
    if args.replay:
        from nmverif.worker import bootstrap_repo
        bootstrap_repo()
        with open(args.replay) as fh:
            rec = json.load(fh)
        ws = check.replay(rec["case"])
        from nmverif import findings as kf
        known = kf.load(prop)
        bad = [w for w in ws if kf.classify(known, w["key"]) is None]
        for w in ws:
            print("WITNESS", json.dumps(w["key"], sort_keys=True), "::", (w.get("detail") or "")[:600])
        if bad:
            print(f"VIOLATION property={prop} replay={args.replay}")
            return 1
        print("replay: no unlisted violation reproduced")
        return 0
    from nmverif import runner
    return runner.execute(check, args.tier, args.seed)


if __name__ == "__main__":
    sys.exit(main())
