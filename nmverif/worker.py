"""Worker process: runs one shard of one check against the repository tree."""

from __future__ import annotations

import faulthandler
import importlib
import json
import os
import sys


def bootstrap_repo() -> str:
    repo = os.environ.get("NIMA_REPO", "/repo")
    if repo not in sys.path[:1]:
        sys.path.insert(0, repo)
    import nix_manipulator  # noqa

    loc = os.path.realpath(os.path.dirname(nix_manipulator.__file__))
    want = os.path.realpath(os.path.join(repo, "nix_manipulator"))
    if loc != want:
        raise RuntimeError(f"nix_manipulator imported from {loc}, expected {want}")
    return repo


_WAL = None
_SKIP: set[str] | None = None


def text_id(text: str) -> str:
    import hashlib

    return hashlib.sha1(text.encode("utf-8", "replace")).hexdigest()[:20]


def quarantined(text: str) -> bool:
    """Inputs that killed the interpreter in an earlier attempt of this shard."""
    global _SKIP
    if _SKIP is None:
        _SKIP = set()
        path = os.environ.get("NIMA_SKIP_FILE")
        if path and os.path.exists(path):
            with open(path) as fh:
                _SKIP = set(json.load(fh))
    return bool(_SKIP) and text_id(text) in _SKIP


def wal_text(text: str) -> None:
    """Write-ahead log of the exact text handed to the library next."""
    wal("T " + json.dumps(text))


def wal(case_id: str) -> None:
    """Write-ahead log: name the case before executing it."""
    global _WAL
    if _WAL is None:
        path = os.environ.get("NIMA_WAL")
        if not path:
            return
        _WAL = open(path, "a", buffering=1)
    _WAL.write(case_id.replace("\n", "\\n")[:20000] + "\n")


def main(argv: list[str]) -> int:
    faulthandler.enable()
    prop, spec_path, out_path = argv[1:4]
    bootstrap_repo()
    mod = importlib.import_module(f"nmverif.checks.{prop.lower()}")
    with open(spec_path) as fh:
        spec = json.load(fh)
    result = mod.run_shard(spec)
    with open(out_path, "w") as fh:
        json.dump(result, fh, default=str)
    return 0


if __name__ == "__main__":
    sys.exit(main(sys.argv))
