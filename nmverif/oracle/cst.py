"""Independent CST reader (oracle side).

Owns its own tree-sitter parser; never imports nix_manipulator.  Everything
the round-trip oracles need is derived from here: error status (with the
formals-trailing-comma normalisation), the code-token sequence (with exactly
the three normalisations C01 allows), comment records with anchors, and leaf
lists for the spacing scanner.
"""

from __future__ import annotations

from dataclasses import dataclass
from typing import Iterator

import tree_sitter_nix
from tree_sitter import Language, Node, Parser

_LANG = Language(tree_sitter_nix.language())
_PARSER = Parser(_LANG)

KEYWORDS = {"let", "in", "with", "assert", "if", "then", "else", "rec", "inherit", "or"}
OPERATORS = {
    "!", "-", "==", "!=", "<", "<=", ">", ">=", "&&", "||", "+", "*", "/",
    "->", "//", "++", "?", ".",
}
LITERAL_LEAVES = {
    "identifier", "integer_expression", "float_expression", "string_fragment",
    "escape_sequence", "path_fragment", "spath_expression", "uri_expression",
    "hpath_expression", "dollar_escape", "ellipses",
}
STRING_PARENTS = {"string_expression", "indented_string_expression"}


def parse_bytes(data: bytes):
    return _PARSER.parse(data)


def to_bytes(text) -> bytes:
    return text if isinstance(text, bytes) else text.encode("utf-8")


@dataclass(slots=True)
class Leaf:
    type: str
    text: bytes
    start: int
    end: int
    parent: str
    grand: str
    row0: int
    row1: int
    col0: int
    in_string: bool  # leaf is string content or a string delimiter
    in_interp: bool  # somewhere below an interpolation
    str_interp: bool  # below an interpolation owned by a string / indented string / path
    node: object = None

    @property
    def is_comment(self) -> bool:
        return self.type == "comment"


class LineIndex:
    """Row / column from byte offsets (tree-sitter's Point getters are not used: in
    py-tree-sitter 0.26 they hand out borrowed references for values above 256)."""

    __slots__ = ("starts",)

    def __init__(self, data: bytes):
        starts = [0]
        find = data.find
        pos = find(b"\n")
        while pos != -1:
            starts.append(pos + 1)
            pos = find(b"\n", pos + 1)
        self.starts = starts

    def row(self, offset: int) -> int:
        import bisect
        return bisect.bisect_right(self.starts, offset) - 1

    def rowcol(self, offset: int) -> tuple[int, int]:
        r = self.row(offset)
        return r, offset - self.starts[r]


def iter_leaves(root: Node, data: bytes | None = None) -> Iterator[Leaf]:
    """All leaves in document order (comments included, zero-width skipped)."""
    index = LineIndex(data) if data is not None else None
    stack = [(root, "", "", False, False, False)]
    # explicit stack, children pushed reversed
    while stack:
        node, parent, grand, in_string, in_interp, str_interp = stack.pop()
        cc = node.child_count
        if cc == 0:
            if node.end_byte == node.start_byte:
                continue
            sb = node.start_byte
            eb = node.end_byte
            if index is not None:
                r0, c0 = index.rowcol(sb)
                r1 = index.row(eb - 1) if eb > sb else r0
            else:
                r0 = c0 = r1 = 0
            yield Leaf(
                node.type, node.text, sb, eb, parent, grand,
                r0, r1, c0, in_string, in_interp, str_interp, node,
            )
            continue
        t = node.type
        child_in_string = in_string
        child_in_interp = in_interp
        if t in STRING_PARENTS:
            child_in_string = True
        child_str_interp = str_interp
        if t == "interpolation":
            # inside ${ } we are back to code
            child_in_interp = True
            child_in_string = False
            if parent in STRING_PARENTS or parent == "path_expression":
                child_str_interp = True
        for child in reversed(node.children):
            stack.append((child, t, parent, child_in_string, child_in_interp, child_str_interp))


def has_error(text) -> bool:
    return parse_bytes(to_bytes(text)).root_node.has_error


def _formals_trailing_commas(root: Node) -> list[int]:
    """Byte offsets of `,` tokens that end a formals list (trailing comma)."""
    out: list[int] = []
    stack = [root]
    while stack:
        node = stack.pop()
        if node.child_count == 0:
            continue
        if node.type == "formals":
            kids = node.children
            for i, kid in enumerate(kids):
                comma_at = None
                if kid.type == ",":
                    comma_at = kid.start_byte
                elif kid.type == "ERROR" and kid.text is not None and kid.text.strip() == b",":
                    comma_at = kid.start_byte + kid.text.index(b",")
                if comma_at is None:
                    continue
                # everything up to the closing brace must be comment / zero-width
                ok = False
                for later in kids[i + 1:]:
                    if later.type == "}":
                        ok = True
                        break
                    if later.type == "comment" or later.end_byte == later.start_byte:
                        continue
                    break
                if ok:
                    out.append(comma_at)
        stack.extend(node.children)
    return out


def strip_formals_trailing_commas(data: bytes) -> bytes:
    """Delete trailing commas of formals (valid Nix the grammar rejects)."""
    for _ in range(64):
        tree = parse_bytes(data)
        if not tree.root_node.has_error:
            return data
        offs = _formals_trailing_commas(tree.root_node)
        if not offs:
            return data
        for off in sorted(offs, reverse=True):
            data = data[:off] + data[off + 1:]
    return data


def normalized(text) -> tuple[bytes, Node, bool]:
    """(normalised bytes, root, has_error) after the trailing-comma rule."""
    data = to_bytes(text)
    tree = parse_bytes(data)
    if tree.root_node.has_error:
        data2 = strip_formals_trailing_commas(data)
        if data2 != data:
            data = data2
            tree = parse_bytes(data)
    return data, tree.root_node, tree.root_node.has_error


def parses_ok(text) -> bool:
    return not normalized(text)[2]


def is_significant(leaf: Leaf) -> bool:
    """identifier / literal / keyword / operator (C03's crossing rule)."""
    t = leaf.type
    if t in LITERAL_LEAVES:
        return t != "ellipses"
    if t in KEYWORDS:
        return True
    if t in OPERATORS:
        if t == "?" and leaf.parent == "formal":
            return False
        return True
    return False


def code_tokens_from_leaves(leaves: list[Leaf]) -> list[tuple[str, bytes]]:
    toks: list[tuple[str, bytes]] = []
    for lf in leaves:
        if lf.type == "comment":
            continue
        if lf.type == "integer_expression":
            try:
                toks.append(("integer_expression", str(int(lf.text)).encode()))
            except ValueError:
                toks.append((lf.type, lf.text))
            continue
        toks.append((lf.type, lf.text))
    # drop binding-less `let in`
    out: list[tuple[str, bytes]] = []
    i = 0
    n = len(toks)
    while i < n:
        if toks[i][0] == "let" and i + 1 < n and toks[i + 1][0] == "in":
            i += 2
            continue
        out.append(toks[i])
        i += 1
    return out


@dataclass(slots=True)
class CommentRec:
    kind: str            # line | block | doc
    raw: str
    wording: tuple
    anchor: int          # significant code tokens before it
    placement: str       # own | eol | inline | inline-lead
    parent: str
    grand: str
    prev: str            # previous code leaf type ('' at file start)
    next: str            # next code leaf type ('' at file end)
    start: int
    multiline: bool
    in_interp: bool
    prev_top: str = ""   # outermost node type ending where the previous code leaf ends
    next_top: str = ""   # outermost node type starting where the next code leaf starts


def _top_ending(leaf: Leaf) -> str:
    node = leaf.node
    top = node
    par = node.parent
    while par is not None and par.type != "source_code" and par.end_byte == node.end_byte:
        top = par
        par = par.parent
    return top.type


def _top_starting(leaf: Leaf) -> str:
    node = leaf.node
    top = node
    par = node.parent
    while par is not None and par.type != "source_code" and par.start_byte == node.start_byte:
        top = par
        par = par.parent
    return top.type


def comment_wording(raw: str) -> tuple[str, tuple]:
    if raw.startswith("#"):
        return "line", (raw[1:].strip(),)
    body = raw
    if body.startswith("/*"):
        body = body[2:]
    if body.endswith("*/"):
        body = body[:-2]
    kind = "block"
    if body.startswith("*") and raw != "/**/":
        kind = "doc"
        body = body[1:]
    lines = [ln.strip() for ln in body.replace("\r", "").split("\n")]
    while lines and not lines[0]:
        lines.pop(0)
    while lines and not lines[-1]:
        lines.pop()
    return kind, tuple(lines)


@dataclass(slots=True)
class Reading:
    data: bytes
    error: bool
    leaves: list[Leaf]
    tokens: list[tuple[str, bytes]]
    comments: list[CommentRec]
    n_significant: int


def read(text) -> Reading:
    data, root, err = normalized(text)
    leaves = list(iter_leaves(root, data))
    tokens = code_tokens_from_leaves(leaves)
    comments: list[CommentRec] = []
    # anchors are counted on the C01-normalised sequence: integers by value do
    # not change counts; an empty `let in` pair must not count.
    sig_before: list[int] = []
    count = 0
    code_idx = [i for i, lf in enumerate(leaves) if lf.type != "comment"]
    skip: set[int] = set()
    for a, b in zip(code_idx, code_idx[1:]):
        if leaves[a].type == "let" and leaves[b].type == "in":
            skip.add(a)
            skip.add(b)
    for i, lf in enumerate(leaves):
        sig_before.append(count)
        if lf.type != "comment" and i not in skip and is_significant(lf):
            count += 1
    n = len(leaves)
    for i, lf in enumerate(leaves):
        if lf.type != "comment":
            continue
        raw = lf.text.decode("utf-8", "replace")
        kind, wording = comment_wording(raw)
        # previous / next code leaves
        p = i - 1
        while p >= 0 and leaves[p].type == "comment":
            p -= 1
        q = i + 1
        while q < n and leaves[q].type == "comment":
            q += 1
        prev_any = leaves[i - 1] if i > 0 else None
        next_any = leaves[i + 1] if i + 1 < n else None
        starts_line = prev_any is None or prev_any.row1 < lf.row0
        ends_line = next_any is None or next_any.row0 > lf.row1
        if starts_line and ends_line:
            placement = "own"
        elif ends_line:
            placement = "eol"
        elif starts_line:
            placement = "inline-lead"
        else:
            placement = "inline"
        comments.append(
            CommentRec(
                kind=kind, raw=raw, wording=(kind,) + wording, anchor=sig_before[i],
                placement=placement, parent=lf.parent, grand=lf.grand,
                prev=leaves[p].type if p >= 0 else "",
                next=leaves[q].type if q < n else "",
                start=lf.start, multiline=lf.row1 > lf.row0, in_interp=lf.in_interp,
                prev_top=_top_ending(leaves[p]) if p >= 0 else "",
                next_top=_top_starting(leaves[q]) if q < n else "",
            )
        )
    return Reading(data, err, leaves, tokens, comments, count)


def first_token_diff(a: list[tuple[str, bytes]], b: list[tuple[str, bytes]]) -> int | None:
    n = min(len(a), len(b))
    for i in range(n):
        if a[i] != b[i]:
            return i
    if len(a) != len(b):
        return n
    return None
