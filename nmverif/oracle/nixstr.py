"""Independent Nix string-literal decoder / attribute-name reader."""

from __future__ import annotations

_ESC = {"n": "\n", "r": "\r", "t": "\t"}


def decode_escape(text: str) -> str:
    """`\\x` -> x with the three named escapes."""
    ch = text[1:]
    return _ESC.get(ch, ch)


def decode_string_node(node) -> tuple[str | None, bool]:
    """Decode a `string_expression` node -> (value, has_interpolation)."""
    out: list[str] = []
    interp = False
    for child in node.children:
        t = child.type
        if t == '"':
            continue
        if t == "string_fragment":
            out.append(child.text.decode("utf-8", "replace"))
        elif t == "escape_sequence":
            out.append(decode_escape(child.text.decode("utf-8", "replace")))
        elif t == "interpolation":
            interp = True
            out.append(child.text.decode("utf-8", "replace"))
        elif t == "dollar_escape":
            # `\` (or `''` in indented strings) in front of a `$`: contributes nothing itself,
            # the `$` follows as an ordinary fragment
            continue
        else:
            out.append(child.text.decode("utf-8", "replace"))
    return "".join(out), interp


def attr_name(node):
    """Decoded attribute name of one attrpath segment node.

    identifier -> its text; string without interpolation -> decoded contents;
    anything dynamic -> ("dyn", source text)."""
    t = node.type
    if t == "identifier":
        return node.text.decode("utf-8", "replace")
    if t == "string_expression":
        val, interp = decode_string_node(node)
        if interp:
            return ("dyn", node.text.decode("utf-8", "replace"))
        return val
    return ("dyn", node.text.decode("utf-8", "replace"))
