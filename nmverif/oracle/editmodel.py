"""Reference model of `set` / `rm` on attribute trees and let layers.

Written from docs/cli.md, docs/api.md and the statements of C05 / C09 / C12;
independent of the library.  The model works on the merged attribute tree
decoded from the *input* text by oracle/attrtree.py and predicts the tree after
the operation, or the refusal class.
"""

from __future__ import annotations

import copy
import re
from dataclasses import dataclass, field

from nmverif.oracle.attrtree import TNode

BARE_RE = re.compile(r"^[A-Za-z_][A-Za-z0-9_']*\Z")


class PathError(Exception):
    pass


def parse_npath(npath: str) -> tuple[int, list[str]]:
    """-> (scope depth, decoded segment names).  Raises PathError when malformed."""
    depth = 0
    while depth < len(npath) and npath[depth] == "@":
        depth += 1
    rest = npath[depth:]
    if rest == "":
        raise PathError("empty path")
    segs: list[str] = []
    i = 0
    n = len(rest)
    while True:
        if i < n and rest[i] == '"':
            i += 1
            buf = []
            closed = False
            while i < n:
                ch = rest[i]
                if ch == "\\":
                    if i + 1 >= n:
                        raise PathError("dangling escape")
                    nxt = rest[i + 1]
                    if nxt == "n":
                        buf.append("\n")
                    elif nxt == "r":
                        buf.append("\r")
                    elif nxt == "t":
                        buf.append("\t")
                    elif nxt in ('"', "\\"):
                        buf.append(nxt)
                    else:
                        buf.append("\\" + nxt)
                    i += 2
                    continue
                if ch == '"':
                    closed = True
                    i += 1
                    break
                buf.append(ch)
                i += 1
            if not closed:
                raise PathError("unterminated quote")
            segs.append("".join(buf))
            if i < n and rest[i] != ".":
                raise PathError("text after closing quote")
        else:
            j = i
            while j < n and rest[j] != ".":
                if rest[j] == '"':
                    raise PathError("quote inside bare segment")
                j += 1
            seg = rest[i:j]
            if seg == "":
                raise PathError("empty segment")
            if not BARE_RE.match(seg):
                raise PathError(f"invalid bare segment {seg!r}")
            segs.append(seg)
            i = j
        if i >= n:
            break
        # rest[i] == '.'
        i += 1
        if i >= n:
            raise PathError("trailing dot")
    return depth, segs


def quote_segment(name: str) -> str:
    """Canonical NPath spelling of an attribute name."""
    if BARE_RE.match(name):
        return name
    esc = name.replace("\\", "\\\\").replace('"', '\\"')
    return f'"{esc}"'


@dataclass
class Prediction:
    status: str                 # ok | KeyError | ValueError | either
    tree: TNode | None = None   # expected tree of the addressed set (target or layer)
    fresh: bool = False         # a new binding is inserted (it must come last in its set)
    shape: str = ""             # absent | leaf | explicit-set | attrpath-set | mixed | non-set-on-path
    reason: str = ""
    pruned_root: list[str] | None = None   # rm: outermost pruned attrpath parent path (or None)
    created_root: list[str] | None = None  # set: outermost newly created binding path


def _shape(node: TNode | None) -> str:
    if node is None:
        return "absent"
    if node.kind == "leaf":
        return "leaf"
    if node.explicit and node.via_attrpath:
        return "mixed"
    if node.via_attrpath:
        return "attrpath-set"
    return "explicit-set"


def _value_node(value) -> TNode:
    if isinstance(value, TNode):
        return copy.deepcopy(value)
    return TNode("leaf", tokens=value)


def predict_set(tree: TNode, segs: list[str], value_tokens) -> Prediction:
    t = copy.deepcopy(tree)
    cur = t
    mixed = False
    created_root = None
    for i, s in enumerate(segs[:-1]):
        child = cur.children.get(s)
        if child is None:
            new = TNode("set", explicit=True)
            cur.children[s] = new
            if created_root is None:
                created_root = segs[: i + 1]
            cur = new
            continue
        if child.kind == "leaf":
            return Prediction("ValueError", shape="non-set-on-path", reason=f"{s} is not a set")
        if child.explicit and child.via_attrpath:
            mixed = True
        cur = child
    last = segs[-1]
    existing = cur.children.get(last)
    shape = _shape(existing)
    # does the walk mix attrpath-derived and explicit nodes?
    kinds = set()
    node = t
    for s in segs[:-1]:
        node = node.children[s]
        kinds.add("attrpath" if (node.via_attrpath and not node.explicit) else "explicit")
    if len(kinds) > 1:
        mixed = True
    if existing is None:
        cur.children[last] = _value_node(value_tokens)
        if created_root is None:
            created_root = list(segs)
        return Prediction("either" if mixed else "ok", t, fresh=True, shape=shape,
                          created_root=created_root)
    if existing.kind == "leaf":
        if existing.tokens and existing.tokens[0][0] == "inherit":
            # the name is defined by an `inherit` clause: a binding next to it would be a second
            # definition (not valid Nix); the edit has to be refused
            return Prediction("ValueError", None, shape="inherited-leaf", reason="name is inherited")
        cur.children[last] = _value_node(value_tokens)
        return Prediction("either" if mixed else "ok", t, shape=shape)
    cur.children[last] = _value_node(value_tokens)
    if shape == "mixed":
        # the root is also an attrpath root: overwriting it is the documented refusal; `t` is
        # what a permissive edit would have to give (every definition of the root replaced)
        return Prediction("ValueError", t, shape=shape, reason="overwrite of an attrpath root")
    if shape == "attrpath-set":
        # refusal expected (attrpath-root overwrite); `t` is what a permissive edit would give
        return Prediction("ValueError", t, shape=shape, reason="overwrite of an attrpath root")
    return Prediction("either" if mixed else "ok", t, shape=shape)


def predict_rm(tree: TNode, segs: list[str]) -> Prediction:
    t = copy.deepcopy(tree)
    cur = t
    chain = [t]
    mixed = False
    for s in segs[:-1]:
        child = cur.children.get(s)
        if child is None:
            return Prediction("KeyError", shape="absent", reason=f"{s} missing")
        if child.kind == "leaf":
            return Prediction("ValueError", shape="non-set-on-path", reason=f"{s} is not a set")
        if child.explicit and child.via_attrpath:
            mixed = True
        cur = child
        chain.append(cur)
    kinds = set()
    for node in chain[1:]:
        kinds.add("attrpath" if (node.via_attrpath and not node.explicit) else "explicit")
    if len(kinds) > 1:
        mixed = True
    last = segs[-1]
    existing = cur.children.get(last)
    shape = _shape(existing)
    if existing is None:
        return Prediction("either" if mixed else "KeyError", shape=shape, reason="missing key")
    if shape == "mixed":
        return Prediction("either", None, shape=shape)
    if existing.kind == "leaf" and existing.tokens and existing.tokens[0][0] == "inherit":
        # not a binding of its own: KeyError (what the library does) or taking the name out of
        # the inherit clause are both defensible
        return Prediction("either", None, shape="inherited-leaf")
    refusable = shape == "attrpath-set"
    del cur.children[last]
    # prune attrpath-derived parents left empty
    pruned_root = None
    for depth in range(len(segs) - 1, 0, -1):
        node = chain[depth]
        parent = chain[depth - 1]
        if node.kind == "set" and not node.children and node.via_attrpath and not node.explicit:
            del parent.children[segs[depth - 1]]
            pruned_root = segs[:depth]
        else:
            break
    if refusable:
        return Prediction("KeyError", t, shape=shape, reason="attrpath root is not a binding",
                          pruned_root=pruned_root)
    return Prediction("either" if mixed else "ok", t, shape=shape, pruned_root=pruned_root)


def has_dynamic(tree: TNode) -> bool:
    for k, v in tree.children.items():
        if k.startswith("\x00dyn:"):
            return True
        if v.kind == "set" and has_dynamic(v):
            return True
    return False
