"""Round-trip judge shared by C01 / C03 / C06 / C18 / C20.

`observe(text)` runs the real library (parse + rebuild, twice more for the
fixed-point question) and records what happened; `judge_*` turn one
observation into witnesses keyed by mechanism (never by random content).
"""

from __future__ import annotations

from dataclasses import dataclass, field

from nmverif.oracle import cst, spacing

DOCUMENTED_ERRORS = (ValueError,)  # NixSyntaxError is a SyntaxError subclass, handled below


@dataclass
class Observation:
    text: str
    passthrough: bool = False
    exc_type: str | None = None
    exc_msg: str | None = None
    exc_documented: bool = False
    out: str | None = None
    out2: str | None = None
    out3: str | None = None
    exc2: str | None = None


def observe(text: str, passes: int = 1) -> Observation:
    from nix_manipulator import parse
    from nix_manipulator.exceptions import NixSyntaxError

    from nmverif.worker import quarantined, wal_text

    ob = Observation(text=text)
    if quarantined(text):
        ob.exc_type = "InterpreterDeath"
        ob.exc_msg = "input killed the interpreter in an earlier attempt (quarantined)"
        return ob
    wal_text(text)
    try:
        doc = parse(text)
        ob.passthrough = bool(doc.contains_error)
        ob.out = doc.rebuild()
    except RecursionError as exc:
        ob.exc_type = "RecursionError"
        ob.exc_msg = str(exc)[:200]
        return ob
    except Exception as exc:  # noqa: BLE001 - exceptions are events
        ob.exc_type = type(exc).__name__
        ob.exc_msg = str(exc)[:200]
        ob.exc_documented = isinstance(exc, (ValueError, NixSyntaxError))
        return ob
    if passes >= 2 and not ob.passthrough:
        try:
            ob.out2 = parse(ob.out).rebuild()
            if passes >= 3:
                ob.out3 = parse(ob.out2).rebuild()
        except Exception as exc:  # noqa: BLE001
            ob.exc2 = f"{type(exc).__name__}: {str(exc)[:160]}"
    return ob


def _cls_group(comment: cst.CommentRec) -> str:
    return comment.kind


def _slot(c: cst.CommentRec) -> dict:
    return {"kind": c.kind + ("-ml" if c.multiline else ""), "placement": c.placement,
            "parent": c.parent, "prev": c.prev, "next": c.next, "prev_top": c.prev_top,
            "next_top": c.next_top}


def _leaf_ctx(rd: cst.Reading, tok_index: int) -> dict:
    """Describe the input code leaf at code-token index `tok_index`."""
    code = [lf for lf in rd.leaves if lf.type != "comment"]
    # account for dropped empty let-in pairs: map by walking
    idx = -1
    i = 0
    n = len(code)
    target = None
    prev = None
    while i < n:
        if code[i].type == "let" and i + 1 < n and code[i + 1].type == "in":
            i += 2
            continue
        idx += 1
        if idx == tok_index:
            target = code[i]
            break
        prev = code[i]
        i += 1
    if target is None:
        return {"at": "<end>", "parent": "", "prev": prev.type if prev else ""}
    return {"at": target.type, "parent": target.parent, "prev": prev.type if prev else ""}


def judge_tokens(ob: Observation, rin: cst.Reading, rout: cst.Reading | None) -> list[dict]:
    """C01: rebuilt text parses and has the same code-token sequence."""
    ws: list[dict] = []
    if ob.exc_type is not None:
        msg = ob.exc_msg or ""
        if msg.startswith("Unsupported node type:"):
            ws.append({"effect": "refused", "node": msg.split(":", 1)[1].strip()})
        else:
            # name the message shape, not the content
            shape = msg.split(":")[0][:50]
            ws.append({"effect": "raised", "exc": ob.exc_type, "msg": shape})
        return ws
    assert rout is not None
    if rout.error:
        ws.append({"effect": "output-syntax-error"})
        return ws
    d = cst.first_token_diff(rin.tokens, rout.tokens)
    if d is None:
        return ws
    ws.append(token_diff_key(rin, rout))
    return ws


def _bucket(n: int) -> str:
    if n <= 2:
        return str(n)
    return "few" if n <= 6 else "many"


def token_diff_key(rin: cst.Reading, rout: cst.Reading) -> dict:
    """Mechanism key of the first differing region of two token sequences."""
    import difflib

    a = rin.tokens
    b = rout.tokens
    # trim the common prefix / suffix first (keeps difflib cheap and the alignment local)
    pre = 0
    n = min(len(a), len(b))
    while pre < n and a[pre] == b[pre]:
        pre += 1
    suf = 0
    while suf < n - pre and a[len(a) - 1 - suf] == b[len(b) - 1 - suf]:
        suf += 1
    a_mid = a[pre:len(a) - suf]
    b_mid = b[pre:len(b) - suf]
    if len(a_mid) * len(b_mid) <= 250000:
        sm = difflib.SequenceMatcher(None, a_mid, b_mid, autojunk=False)
        ops = [op for op in sm.get_opcodes() if op[0] != "equal"]
        tag, i1, i2, j1, j2 = ops[0] if ops else ("replace", 0, len(a_mid), 0, len(b_mid))
    else:
        tag, i1, i2, j1, j2 = "replace", 0, len(a_mid), 0, len(b_mid)
    dele = a_mid[i1:i2]
    ins = b_mid[j1:j2]
    effect = "token-changed"
    if dele and not ins:
        effect = "token-lost"
    elif ins and not dele:
        effect = "token-added"
    # swallowed by a comment of the output?
    if dele:
        gone = b"".join(t[1] for t in dele[:3]).decode("utf-8", "replace")
        first = dele[0][1].decode("utf-8", "replace")
        in_comments = " ".join(c.raw for c in rin.comments)
        for c in rout.comments:
            if first and first in c.raw and first not in in_comments:
                effect = "code-absorbed-by-comment"
                break
    dup = "no"
    if ins:
        k = len(ins)
        before = b[pre + j1 - k: pre + j1] if pre + j1 - k >= 0 else None
        after = b[pre + j2: pre + j2 + k]
        if before == ins or after == ins:
            dup = "yes"
    prev = a[pre + i1 - 1][0] if pre + i1 - 1 >= 0 else ""
    return {
        "effect": effect,
        "del_first": dele[0][0] if dele else "", "del_last": dele[-1][0] if dele else "",
        "del_n": _bucket(len(dele)),
        "ins_first": ins[0][0] if ins else "", "ins_last": ins[-1][0] if ins else "",
        "ins_n": _bucket(len(ins)), "dup": dup, "prev": prev,
    }


def judge_comments(rin: cst.Reading, rout: cst.Reading) -> list[dict]:
    """C03: every comment exactly once, same wording, same order, same anchor."""
    ws: list[dict] = []
    out_by_wording: dict[tuple, list[cst.CommentRec]] = {}
    for c in rout.comments:
        out_by_wording.setdefault(c.wording, []).append(c)
    in_by_wording: dict[tuple, list[cst.CommentRec]] = {}
    for c in rin.comments:
        in_by_wording.setdefault(c.wording, []).append(c)
    matched_out: list[tuple[cst.CommentRec, cst.CommentRec]] = []
    for wording, ins in in_by_wording.items():
        outs = out_by_wording.get(wording, [])
        if len(outs) < len(ins):
            # dropped or wording changed
            for c in ins[len(outs):]:
                # wording changed? look for an output comment sharing the serial
                eff = "comment-dropped"
                from nmverif.gen.trivia import serial_of
                s = serial_of(c.raw)
                if s is not None and any(
                        serial_of(o.raw) == s and o.wording not in in_by_wording
                        for o in rout.comments):
                    eff = "comment-reworded"
                key = {"effect": eff}
                key.update(_slot(c))
                ws.append(key)
        elif len(outs) > len(ins):
            for c in ins[:1]:
                key = {"effect": "comment-duplicated"}
                key.update(_slot(c))
                ws.append(key)
        for ci, co in zip(ins, outs):
            matched_out.append((ci, co))
    for wording, outs in out_by_wording.items():
        if wording not in in_by_wording:
            from nmverif.gen.trivia import serial_of
            # an invented comment (reworded ones were reported above)
            s = serial_of(outs[0].raw)
            if s is None or not any(serial_of(c.raw) == s for c in rin.comments):
                ws.append({"effect": "comment-invented", "kind": outs[0].kind,
                           "parent": outs[0].parent, "prev": outs[0].prev, "next": outs[0].next,
                           "placement": outs[0].placement})
    # anchors and order
    matched_out.sort(key=lambda p: p[0].start)
    last_out_start = -1
    last_ci = None
    for ci, co in matched_out:
        if ci.anchor != co.anchor:
            key = {"effect": "comment-moved", "shift": "later" if co.anchor > ci.anchor else "earlier"}
            key.update(_slot(ci))
            ws.append(key)
            continue  # a moved comment must not make its unmoved neighbours look reordered
        elif co.start < last_out_start:
            # blame the comment that jumped behind this one (the input-earlier of the pair)
            # either comment of the inverted pair may be the one that jumped: report both slots
            pair = [_slot(last_ci if last_ci is not None else ci), _slot(ci)]
            ws.append({"effect": "comment-reordered", "pair": pair})
        if co.start > last_out_start:
            last_out_start = co.start
            last_ci = ci
    return ws


def in_c06_domain(rin: cst.Reading) -> bool:
    """Every comment alone on its line or last on its line (decided on the input CST)."""
    return all(c.placement in ("own", "eol") for c in rin.comments)


def _leaf_at(rd: cst.Reading, offset: int):
    prev = None
    for lf in rd.leaves:
        if lf.start <= offset < lf.end:
            return prev, lf, lf
        if lf.start > offset:
            return prev, None, lf
        prev = lf
    return prev, None, None


_CONTAINERS = {"attrset_expression", "rec_attrset_expression", "list_expression", "formals"}


def _has_inline_multiline_container(text: str) -> str:
    """Does the text hold a set / list / formals laid out inline (first element on the
    opener's line) that nevertheless spans several lines?"""
    data = cst.to_bytes(text)
    root = cst.parse_bytes(data).root_node
    index = cst.LineIndex(data)
    stack = [root]
    while stack:
        node = stack.pop()
        if node.child_count == 0:
            continue
        kids = node.children
        if node.type in _CONTAINERS and index.row(node.end_byte - 1) > index.row(node.start_byte):
            opener = next((k for k in kids if k.type in ("{", "[")), None)
            first = None
            seen = False
            for k in kids:
                if k is opener or (opener is not None and k.start_byte == opener.start_byte):
                    seen = True
                    continue
                if seen and k.type not in ("}", "]"):
                    first = k
                    break
            if first is not None and first.type == "binding_set" and first.child_count:
                first = first.children[0]
            if opener is not None and first is not None \
                    and index.row(first.start_byte) == index.row(opener.start_byte):
                return "yes"
        stack.extend(kids)
    return "no"


def judge_stability(ob: Observation) -> list[dict]:
    """C06: first-pass output is a fixed point."""
    ws: list[dict] = []
    if ob.out is None:
        return ws
    if ob.exc2 is not None:
        ws.append({"effect": "second-pass-raised", "exc": ob.exc2.split(":")[0]})
        return ws
    if ob.out2 is None or ob.out2 == ob.out:
        return ws
    a = ob.out.encode()
    b = ob.out2.encode()
    n = min(len(a), len(b))
    off = next((i for i in range(n) if a[i] != b[i]), n)
    r1 = cst.read(ob.out)
    prev, inside, nxt = _leaf_at(r1, off)
    inside_kind = ""
    if inside is not None and inside.type == "comment":
        raw = inside.text
        inside_kind = "line" if raw.startswith(b"#") else ("block-ml" if b"\n" in raw else "block")
    glued = bool(nxt is not None and nxt.type == "comment" and prev is not None
                 and prev.end == nxt.start)
    key = {
        "effect": "unstable",
        "inline_multiline_container": _has_inline_multiline_container(ob.out),
        "inside_kind": inside_kind,
        "glued_comment": "yes" if glued else "no",
        "prev": prev.type if prev is not None else "",
        "next": nxt.type if nxt is not None else "",
        "parent": (nxt.parent if nxt is not None else (prev.parent if prev is not None else "")),
        "inside": inside.type if inside is not None else "",
    }
    ws.append(key)
    return ws


def judge_spacing(rout: cst.Reading) -> list[dict]:
    ws = []
    seen = set()
    for h in spacing.scan(rout):
        key = {"effect": "spacing", "rule": h["rule"], "lca": h["lca"], "prev": h["prev"],
               "next": h["next"], "ckind": h["ckind"]}
        t = tuple(sorted(key.items()))
        if t in seen:
            continue
        seen.add(t)
        ws.append(key)
    return ws
