"""CST -> Python data (ints, floats, strings, booleans, null, lists, attribute sets)."""

from __future__ import annotations

import re

from nmverif.oracle import cst, nixstr

FLOAT_RE = re.compile(r"^(([1-9][0-9]*\.[0-9]*)|(0?\.[0-9]+))([Ee][+-]?[0-9]+)?$")


class NotData(Exception):
    pass


def decode_indented(node) -> str:
    """Nix indented string semantics: strip common indentation, first line if empty, ''$ ''' ''\\x."""
    parts = []
    for child in node.children:
        t = child.type
        if t == "''":
            continue
        if t == "string_fragment":
            parts.append(("text", child.text.decode("utf-8", "replace")))
        elif t == "escape_sequence":
            raw = child.text.decode("utf-8", "replace")
            if raw == "'''":
                parts.append(("esc", "''"))
            elif raw.startswith("''\\"):
                parts.append(("esc", nixstr.decode_escape(raw[2:])))
            else:
                parts.append(("esc", raw))
        elif t == "dollar_escape":
            continue
        elif t == "interpolation":
            raise NotData("interpolation")
        else:
            parts.append(("text", child.text.decode("utf-8", "replace")))
    # build lines with markers for escaped pieces (escapes do not count as indentation)
    text = "".join(p[1] if p[0] == "text" else "\x00" + p[1] + "\x01" for p in parts)
    lines = text.split("\n")
    if lines and lines[0].strip(" ") == "":
        lines = lines[1:]
        first_dropped = True
    indents = []
    for i, ln in enumerate(lines):
        if ln.strip(" ") == "" and i != len(lines) - 1:
            continue
        if ln.strip(" ") == "" and i == len(lines) - 1:
            continue
        indents.append(len(ln) - len(ln.lstrip(" ")))
    m = min(indents) if indents else 0
    out = []
    for i, ln in enumerate(lines):
        if ln.strip(" ") == "":
            out.append("" if i != len(lines) - 1 else "")
        else:
            out.append(ln[m:])
    res = "\n".join(out)
    return res.replace("\x00", "").replace("\x01", "")


def to_python(node):
    t = node.type
    if t == "integer_expression":
        return int(node.text)
    if t == "float_expression":
        txt = node.text.decode()
        if not FLOAT_RE.match(txt):
            raise NotData(f"not a Nix float: {txt}")
        return float(txt)
    if t == "string_expression":
        val, interp = nixstr.decode_string_node(node)
        if interp:
            raise NotData("interpolation")
        return val
    if t == "indented_string_expression":
        return decode_indented(node)
    if t == "variable_expression":
        name = node.text.decode()
        if name == "true":
            return True
        if name == "false":
            return False
        if name == "null":
            return None
        raise NotData(f"identifier {name}")
    if t == "unary_expression":
        kids = [c for c in node.children if c.type != "comment"]
        if kids[0].type == "-":
            v = to_python(kids[1])
            if isinstance(v, bool) or not isinstance(v, (int, float)):
                raise NotData("negation of non-number")
            return -v
        raise NotData("unary !")
    if t == "parenthesized_expression":
        inner = [c for c in node.children if c.is_named and c.type != "comment"]
        return to_python(inner[0])
    if t == "list_expression":
        return [to_python(c) for c in node.children if c.is_named and c.type != "comment"]
    if t in ("attrset_expression", "rec_attrset_expression"):
        from nmverif.oracle import attrtree as A
        sv = A.decode_set(node)
        out: dict = {}
        for b in sv.bindings:
            if b.kind != "bind":
                raise NotData("inherit")
            cur = out
            for seg in b.path[:-1]:
                if not isinstance(seg, str):
                    raise NotData("dynamic name")
                cur = cur.setdefault(seg, {})
                if not isinstance(cur, dict):
                    raise NotData("attrpath through a non-set")
            last = b.path[-1]
            if not isinstance(last, str):
                raise NotData("dynamic name")
            if last in cur:
                raise NotData(f"duplicate attribute {last}")
            cur[last] = to_python(b.value_node)
        return out
    raise NotData(f"node type {t}")


def parse_data(text: str):
    """(value, None) or (None, reason)."""
    data, root, err = cst.normalized(text)
    if err:
        return None, "syntax error"
    exprs = [c for c in root.children if c.type != "comment"]
    if len(exprs) != 1:
        return None, "not one expression"
    try:
        return to_python(exprs[0]), None
    except NotData as exc:
        return None, str(exc)
