"""Judgements of one edit step against the reference model (C04 C05 C09 C12)."""

from __future__ import annotations

from nmverif.oracle import attrtree as A
from nmverif.oracle import cst, editmodel as M


def value_tokens(value_text: str):
    """Token tuple of a VALUE argument (or a decoded set tree when VALUE is an attribute set);
    None when it is not exactly one valid expression."""
    data, root, err = cst.normalized(value_text)
    if err:
        return None
    exprs = [c for c in root.children if c.type != "comment"]
    if len(exprs) != 1:
        return None
    if exprs[0].type in A.SET_TYPES:
        t = A.merge(A.decode_set(exprs[0]).bindings)
        t.explicit = True
        return t
    return A.tokens_of(exprs[0])


def msg_shape(msg: str) -> str:
    return (msg or "").split(":")[0][:48]


def plain_diff(a, b, prefix=()):
    """First differing path between two plain trees (dict / ('leaf', tokens))."""
    if isinstance(a, dict) and isinstance(b, dict):
        for k in list(a.keys()) + [k for k in b.keys() if k not in a]:
            if k not in a:
                return prefix + (k,), "extra"
            if k not in b:
                return prefix + (k,), "missing"
            d = plain_diff(a[k], b[k], prefix + (k,))
            if d is not None:
                return d
        return None
    if a != b:
        return prefix, "value"
    return None


def find_written(bindings, segs, prefix=()):
    """Locate the written binding that defines path `segs`: (container list, index) or None."""
    for i, b in enumerate(bindings):
        if b.kind != "bind":
            continue
        full = prefix + tuple(s if isinstance(s, str) else "\x00dyn:" + str(s[1]) for s in b.path)
        if list(full) == list(segs):
            return bindings, i
        if len(full) < len(segs) and list(full) == list(segs[: len(full)]) and b.sub is not None:
            r = find_written(b.sub.bindings, segs, full)
            if r is not None:
                return r
    return None


def judge_semantics(dv_in: A.DocView, op, res, *, base_key: dict) -> list[dict]:
    """C05 / C09 core: valid output + exactly the requested change, or an allowed refusal."""
    keys: list[dict] = []

    def add(effect, **extra):
        k = dict(base_key)
        k["effect"] = effect
        k.update({a: str(b) for a, b in extra.items()})
        keys.append(k)

    # ---- what does the model say
    try:
        depth, segs = M.parse_npath(op.npath)
        path_ok = True
    except M.PathError as exc:
        path_ok = False
        depth, segs = 0, []
    vtoks = value_tokens(op.value) if op.kind == "set" else ()
    value_ok = vtoks is not None

    if res.exc_type is not None:
        documented = "KeyError" in getattr(res, "exc_mro", [res.exc_type]) or \
            "ValueError" in getattr(res, "exc_mro", [res.exc_type])
        if not documented:
            add("undocumented-exception", exc=res.exc_type, msg=msg_shape(res.exc_msg))
            return keys
    if not path_ok or not value_ok or dv_in.target is None:
        if res.exc_type is None:
            add("accepted-malformed", what=("path" if not path_ok else ("value" if not value_ok else "shape")))
        return keys

    scoped = depth > 0
    if scoped:
        layers = dv_in.layers
        if depth > len(layers):
            if depth == 1 and not layers and op.kind == "set":
                tree_in = A.TNode("set", explicit=True)
                creating = True
            else:
                if res.exc_type is None:
                    add("accepted-missing-scope-layer")
                return keys
        else:
            tree_in = A.merge(layers[-depth])
            creating = False
    else:
        tree_in = A.merge(dv_in.target.bindings)
        creating = False
    if M.has_dynamic(tree_in):
        return keys
    base_key["via_nested_attrpath_set"] = "no"
    if not scoped:
        # does the path run through an explicit nested set that holds attrpath-form bindings?
        blist = dv_in.target.bindings
        for seg in segs[:-1]:
            nxt = None
            for b in blist:
                if b.kind == "bind" and len(b.path) == 1 and b.path[0] == seg and b.sub is not None:
                    nxt = b.sub.bindings
                    break
            if nxt is None:
                break
            if any(b.kind == "bind" and len(b.path) > 1 for b in nxt):
                base_key["via_nested_attrpath_set"] = "yes"
            blist = nxt
    pred = M.predict_set(tree_in, segs, vtoks) if op.kind == "set" else M.predict_rm(tree_in, segs)
    base_key["shape"] = pred.shape

    if res.exc_type is not None:
        if pred.status == "ok":
            add("refused-valid-edit", exc=res.exc_type, msg=msg_shape(res.exc_msg))
        return keys

    # ---- succeeded: output must be valid and show exactly the requested change
    dv_out = A.decode(res.out)
    if dv_out.error:
        add("output-syntax-error")
        return keys
    if dv_out.target is None:
        add("target-lost", reason=dv_out.reason)
        return keys
    dups: list = []
    tree_target_out = A.merge(dv_out.target.bindings, dups)
    layer_trees_out = [A.merge(l, dups) for l in dv_out.layers]
    if dups:
        add("duplicate-definition")
        return keys
    if pred.tree is None:
        if pred.status in ("KeyError", "ValueError"):
            add("accepted-refusable", expected=pred.status)
        return keys
    if scoped:
        exp_layers = [A.to_plain(A.merge(l)) for l in dv_in.layers]
        if creating:
            exp_layers.append(A.to_plain(pred.tree))
        else:
            new = A.to_plain(pred.tree)
            if not new:
                del exp_layers[len(exp_layers) - depth]
            else:
                exp_layers[len(exp_layers) - depth] = new
        got_layers = [A.to_plain(t) for t in layer_trees_out]
        if got_layers != exp_layers:
            if len(got_layers) != len(exp_layers):
                add("wrong-layer-count", expected=len(exp_layers), got=len(got_layers))
            else:
                idx = next(i for i in range(len(exp_layers)) if exp_layers[i] != got_layers[i])
                add("wrong-layer-content", layer_from_inner=len(exp_layers) - idx,
                    addressed=depth)
            return keys
        if A.to_plain(tree_target_out) != A.to_plain(A.merge(dv_in.target.bindings)):
            add("scoped-edit-changed-body")
            return keys
        if dv_out.wrappers != (dv_in.wrappers + (["let"] if creating else [])) and not (
                not creating and not A.to_plain(pred.tree)):
            pass
    else:
        exp = A.to_plain(pred.tree)
        got = A.to_plain(tree_target_out)
        d = plain_diff(exp, got)
        if d is not None:
            where, kind = d
            noop = got == A.to_plain(tree_in)
            if kind == "order":
                add("wrong-order")
            else:
                add("wrong-tree", noop="yes" if noop else "no", diff=kind,
                    at=("target" if list(where) == list(segs) else "elsewhere"))
            return keys
        if [A.to_plain(A.merge(l)) for l in dv_in.layers] != [A.to_plain(t) for t in layer_trees_out]:
            add("plain-edit-changed-layers")
            return keys
        if pred.fresh and op.kind == "set":
            loc = find_written(dv_out.target.bindings, segs)
            if loc is not None:
                cont, idx = loc
                if idx != len(cont) - 1:
                    add("new-binding-not-last")
    return keys
