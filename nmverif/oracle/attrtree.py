"""Attribute-tree / binding-list / let-chain decoder from the CST (independent of the library)."""

from __future__ import annotations

from dataclasses import dataclass, field

from nmverif.oracle import cst, nixstr

SET_TYPES = ("attrset_expression", "rec_attrset_expression")


@dataclass
class BindingView:
    kind: str                         # bind | inherit
    path: tuple = ()                  # decoded names
    node: object = None               # binding / inherit node
    value_node: object = None
    value_tokens: tuple = ()
    sub: "SetView | None" = None
    names: tuple = ()                 # inherit names
    source_tokens: tuple | None = None
    start: int = 0
    end: int = 0


@dataclass
class SetView:
    node: object
    rec: bool
    bindings: list[BindingView] = field(default_factory=list)


@dataclass
class DocView:
    error: bool
    data: bytes
    wrappers: list[str] = field(default_factory=list)      # outermost first, kinds
    layers: list[list[BindingView]] = field(default_factory=list)  # lets directly around the target
    layer_nodes: list[object] = field(default_factory=list)
    target: SetView | None = None
    root: object = None
    reason: str = ""


def tokens_of(node) -> tuple:
    leaves = [lf for lf in cst.iter_leaves(node) if lf.type != "comment"]
    return tuple(cst.code_tokens_from_leaves(leaves))


def _named(node):
    return [c for c in node.children if c.is_named and c.type != "comment"]


def decode_bindings(container) -> list[BindingView]:
    """Bindings of an attrset / let node (unwraps binding_set)."""
    items = []
    for child in container.children:
        if child.type == "binding_set":
            items.extend(c for c in child.children)
        else:
            items.append(child)
    out: list[BindingView] = []
    for it in items:
        if it.type == "binding":
            ap = next((c for c in it.children if c.type == "attrpath"), None)
            val = None
            seen_eq = False
            for c in it.children:
                if c.type == "=":
                    seen_eq = True
                    continue
                if seen_eq and c.is_named and c.type != "comment":
                    val = c
                    break
            if ap is None or val is None:
                continue
            path = tuple(nixstr.attr_name(seg) for seg in ap.children
                         if seg.type not in (".", "comment"))
            bv = BindingView("bind", path, it, val, tokens_of(val), None, (), None,
                             it.start_byte, it.end_byte)
            inner = val
            if inner.type in SET_TYPES:
                bv.sub = decode_set(inner)
            out.append(bv)
        elif it.type in ("inherit", "inherit_from"):
            names = []
            src = None
            for c in it.children:
                if c.type == "inherited_attrs":
                    for seg in c.children:
                        if seg.type != "comment":
                            names.append(nixstr.attr_name(seg))
                elif c.is_named and c.type != "comment":
                    src = tokens_of(c)
            out.append(BindingView("inherit", (), it, None, (), None, tuple(names), src,
                                   it.start_byte, it.end_byte))
    return out


def decode_set(node) -> SetView:
    return SetView(node, node.type == "rec_attrset_expression", decode_bindings(node))


def decode(text) -> DocView:
    data, root, err = cst.normalized(text)
    dv = DocView(err, data, root=root)
    if err:
        dv.reason = "syntax error"
        return dv
    exprs = [c for c in root.children if c.type != "comment"]
    if len(exprs) != 1:
        dv.reason = "not exactly one expression"
        return dv
    cur = exprs[0]
    pending_lets: list = []
    for _ in range(200):
        t = cur.type
        if t in SET_TYPES:
            dv.target = decode_set(cur)
            dv.layers = [decode_bindings(n) for n in pending_lets]
            dv.layer_nodes = list(pending_lets)
            return dv
        if t == "let_expression":
            dv.wrappers.append("let")
            pending_lets.append(cur)
            body = cur.child_by_field_name("body")
            if body is None:
                kids = _named(cur)
                body = kids[-1] if kids else None
            if body is None:
                break
            cur = body
            continue
        pending_lets = []
        if t == "function_expression":
            dv.wrappers.append("lambda")
            cur = cur.child_by_field_name("body") or _named(cur)[-1]
        elif t == "with_expression":
            dv.wrappers.append("with")
            cur = cur.child_by_field_name("body") or _named(cur)[-1]
        elif t == "assert_expression":
            dv.wrappers.append("assert")
            cur = cur.child_by_field_name("body") or _named(cur)[-1]
        elif t == "parenthesized_expression":
            dv.wrappers.append("paren")
            cur = _named(cur)[0]
        elif t == "apply_expression":
            dv.wrappers.append("call")
            arg = cur.child_by_field_name("argument") or _named(cur)[-1]
            cur = arg
        else:
            dv.reason = f"not an editable shape: {t}"
            return dv
    dv.reason = "no target"
    return dv


# ------------------------------------------------------------------ merged tree
@dataclass
class TNode:
    kind: str                          # leaf | set
    tokens: tuple = ()
    children: dict = field(default_factory=dict)   # ordered
    explicit: bool = False             # some `name = { ... }` binding defines it
    via_attrpath: bool = False         # some `a.b = ...` binding passes through / creates it


def merge(bindings: list[BindingView], dups: list | None = None) -> TNode:
    root = TNode("set", explicit=True)
    for b in bindings:
        if b.kind == "inherit":
            for n in b.names:
                key = n if isinstance(n, str) else str(n)
                if key in root.children and dups is not None:
                    dups.append(key)
                root.children[key] = TNode("leaf", tokens=(("inherit", b.source_tokens),))
            continue
        _insert(root, b.path, b, dups, [])
    return root


def _key(n) -> str:
    return n if isinstance(n, str) else "\x00dyn:" + str(n[1])


def _insert(node: TNode, path: tuple, b: BindingView, dups, trail: list) -> None:
    name = _key(path[0])
    here = trail + [name]
    if len(path) == 1:
        if b.sub is not None:
            sub = merge(b.sub.bindings, dups)
            sub.explicit = True
            existing = node.children.get(name)
            if existing is None:
                node.children[name] = sub
            elif existing.kind == "set":
                existing.explicit = True
                for k, v in sub.children.items():
                    if k in existing.children:
                        _merge_into(existing.children, k, v, dups, here)
                    else:
                        existing.children[k] = v
            else:
                if dups is not None:
                    dups.append(".".join(here))
        else:
            if name in node.children:
                if dups is not None:
                    dups.append(".".join(here))
            node.children[name] = TNode("leaf", tokens=b.value_tokens)
        return
    child = node.children.get(name)
    if child is None:
        child = TNode("set", via_attrpath=True)
        node.children[name] = child
    elif child.kind != "set":
        if dups is not None:
            dups.append(".".join(here))
        return
    child.via_attrpath = True
    _insert(child, path[1:], b, dups, here)


def _merge_into(children: dict, k: str, v: TNode, dups, trail) -> None:
    ex = children[k]
    if ex.kind == "set" and v.kind == "set":
        for kk, vv in v.children.items():
            if kk in ex.children:
                _merge_into(ex.children, kk, vv, dups, trail + [k])
            else:
                ex.children[kk] = vv
        ex.explicit = ex.explicit or v.explicit
    else:
        if dups is not None:
            dups.append(".".join(trail + [k]))


def to_plain(node: TNode):
    """Nested plain structure for comparison: leaf -> token tuple; set -> dict."""
    if node.kind == "leaf":
        return ("leaf", node.tokens)
    return {k: to_plain(v) for k, v in node.children.items()}


def lookup(node: TNode, path: list[str]):
    cur = node
    for p in path:
        if cur.kind != "set" or p not in cur.children:
            return None
        cur = cur.children[p]
    return cur


def root_form(bindings: list[BindingView], name: str) -> str:
    """How the attribute `name` is written in a binding list: absent | explicit (one `name = ..`
    binding) | dotted (`name.x = ..` bindings only) | mixed (both: the definitions merge in
    Nix, the library keeps them in two structures) | inherit."""
    explicit = dotted = inherited = False
    for b in bindings:
        if b.kind == "bind" and b.path and b.path[0] == name:
            if len(b.path) == 1:
                explicit = True
            else:
                dotted = True
        elif b.kind != "bind" and name in (getattr(b, "names", None) or ()):
            inherited = True
    if explicit and dotted:
        return "mixed"
    if dotted:
        return "dotted"
    if explicit:
        return "explicit"
    return "inherit" if inherited else "absent"


def mixed_roots(bindings: list[BindingView]) -> set:
    names = {b.path[0] for b in bindings if b.kind == "bind" and b.path}
    return {n for n in names if root_form(bindings, n) == "mixed"}


def _all_binding_lists(bindings):
    yield bindings
    for b in bindings:
        if b.sub is not None:
            yield from _all_binding_lists(b.sub.bindings)


def doc_has_mixed(dv: "DocView") -> bool:
    lists = []
    if dv.target is not None:
        lists.append(dv.target.bindings)
    lists += list(dv.layers)
    return any(mixed_roots(bl) for top in lists for bl in _all_binding_lists(top))


def mixed_on_path(bindings: list[BindingView], segs: list[str]) -> bool:
    """Does the path pass through (or end at) an attribute written both ways?"""
    cur = bindings
    for i, s in enumerate(segs):
        if root_form(cur, s) == "mixed":
            return True
        nxt = None
        for b in cur:
            if b.kind == "bind" and b.path and b.path[0] == s and len(b.path) == 1 and b.sub is not None:
                nxt = b.sub.bindings
                break
        if nxt is None:
            return False
        cur = nxt
    return False
