"""C04: an edit touches only the binding it addresses (token level + canonical byte level)."""

from __future__ import annotations

import re

from nmverif.oracle import attrtree as A
from nmverif.oracle import cst, editjudge as J, editmodel as M


def leaf_items(rd: cst.Reading, cut: tuple[int, int] | None):
    """[(kind, payload, leaf)] outside the cut extent; comments by wording."""
    out = []
    for lf in rd.leaves:
        if cut is not None and lf.start >= cut[0] and lf.end <= cut[1]:
            continue
        if lf.type == "comment":
            kind, wording = cst.comment_wording(lf.text.decode("utf-8", "replace"))
            out.append(("comment", (kind,) + wording, lf))
        elif lf.type == "integer_expression":
            try:
                out.append(("integer_expression", str(int(lf.text)).encode(), lf))
            except ValueError:
                out.append((lf.type, lf.text, lf))
        else:
            out.append((lf.type, lf.text, lf))
    return out


_VALUE_COMMENT_RE = re.compile(rb"vc\d+")


def drop_value_comments(items, op):
    """Comments that the VALUE argument itself carries (marked `vc<N>`, unique per operation)
    are part of what the operation writes, wherever the renderer puts them."""
    marks = set(_VALUE_COMMENT_RE.findall((getattr(op, "value", "") or "").encode()))
    if not marks:
        return items
    return [it for it in items if not (it[0] == "comment" and any(m in it[2].text for m in marks))]


def attached_comments(rd: cst.Reading, start: int, end: int) -> set[int]:
    """Offsets of comment leaves attached to the binding [start,end): the own-line block
    directly above it and the end-of-line comment on its last line."""
    leaves = rd.leaves
    att: set[int] = set()
    idx_first = next((i for i, lf in enumerate(leaves) if lf.start >= start), None)
    if idx_first is None:
        return att
    i = idx_first - 1
    while i >= 0 and leaves[i].type == "comment":
        att.add(leaves[i].start)
        i -= 1
    idx_after = next((i for i, lf in enumerate(leaves) if lf.start >= end), None)
    if idx_after is not None:
        j = idx_after
        last_row = rd.leaves[idx_after - 1].row1 if idx_after > 0 else -1
        while j < len(leaves) and leaves[j].type == "comment" and leaves[j].row0 == last_row:
            # the end-of-line comment on the binding's last line; own-line comments that follow
            # (e.g. the closing comments of the set) are not attached to the binding
            att.add(leaves[j].start)
            j += 1
    return att


def match_with_optional(a_items, b_items, optional: set[int]):
    """Is b == a minus some of the optional (comment) items?  Returns index of first problem."""
    i = j = 0
    na, nb = len(a_items), len(b_items)
    while i < na and j < nb:
        ka, pa, la = a_items[i]
        kb, pb, lb = b_items[j]
        if ka == kb and pa == pb:
            i += 1
            j += 1
            continue
        if ka == "comment" and la.start in optional:
            i += 1
            continue
        return i, j
    while i < na and a_items[i][0] == "comment" and a_items[i][2].start in optional:
        i += 1
    if i < na or j < nb:
        return i, j
    return None


def judge_tokens(dv_in: A.DocView, op, res, pred: M.Prediction, segs: list[str], base_key: dict):
    keys = []
    if res.exc_type is not None or res.out is None or dv_in.target is None:
        return keys
    dv_out = A.decode(res.out)
    if dv_out.error or dv_out.target is None:
        return keys  # C05's subject
    rin = cst.read(res.before)
    rout = cst.read(res.out)
    cut_in = cut_out = None
    optional: set[int] = set()
    loc_in = J.find_written(dv_in.target.bindings, segs)
    if op.kind == "rm":
        if loc_in is None:
            return keys
        b = loc_in[0][loc_in[1]]
        cut_in = (b.start, b.end)
        optional = attached_comments(rin, b.start, b.end)
        # how the removed binding is written: `a.b = v;` bindings live in a second structure
        base_key["written"] = "dotted" if len(getattr(b, "path", ()) or ()) > 1 else "plain"
        base_key["position"] = ("only" if len(loc_in[0]) == 1 else
                                ("first" if loc_in[1] == 0 else
                                 ("last" if loc_in[1] == len(loc_in[0]) - 1 else "middle")))
    else:
        loc_out = None
        if pred.fresh and pred.created_root:
            loc_out = J.find_written(dv_out.target.bindings, pred.created_root)
            if loc_out is None:
                loc_out = J.find_written(dv_out.target.bindings, segs)
            base_key["position"] = "inserted"
        else:
            loc_out = J.find_written(dv_out.target.bindings, segs)
            if loc_in is not None:
                b = loc_in[0][loc_in[1]]
                cut_in = (b.start, b.end)
                # an end-of-line comment that an earlier VALUE brought with it (mark `vc<N>`) is
                # part of the value being replaced: it may stay or go
                optional = {off for off in attached_comments(rin, b.start, b.end)
                            if any(lf.start == off and _VALUE_COMMENT_RE.search(lf.text) for lf in rin.leaves)}
                base_key["position"] = ("only" if len(loc_in[0]) == 1 else
                                        ("first" if loc_in[1] == 0 else
                                         ("last" if loc_in[1] == len(loc_in[0]) - 1 else "middle")))
        if loc_out is None:
            return keys  # the change itself is C05's subject
        bo = loc_out[0][loc_out[1]]
        cut_out = (bo.start, bo.end)
    a_items = leaf_items(rin, cut_in)
    b_items = drop_value_comments(leaf_items(rout, cut_out), op)
    bad = match_with_optional(a_items, b_items, optional)
    if bad is not None:
        i, j = bad
        ia = a_items[i] if i < len(a_items) else None
        ib = b_items[j] if j < len(b_items) else None
        k = dict(base_key)
        if ia is not None and ia[0] == "comment" and (ib is None or ib[1] != ia[1]):
            k["effect"] = "foreign-comment-lost"
            if cut_in is not None:
                k["lost"] = "after-binding" if ia[2].start >= cut_in[1] else "before-binding"
                # the lost comment stands directly below an end-of-line comment that an earlier
                # VALUE brought to this binding (two trailing comments in the live object)
                idx = next((n for n, lf in enumerate(rin.leaves) if lf.start == ia[2].start), None)
                if idx and rin.leaves[idx - 1].type == "comment" and _VALUE_COMMENT_RE.search(rin.leaves[idx - 1].text) \
                        and cut_in[1] <= rin.leaves[idx - 1].start:
                    k["below_value_comment"] = "yes"
        elif ib is not None and ib[0] == "comment":
            k["effect"] = "foreign-comment-added-or-moved"
        else:
            k["effect"] = "foreign-token-changed"
        k["in_tok"] = ia[0] if ia else "<end>"
        k["out_tok"] = ib[0] if ib else "<end>"
        keys.append(k)
    return keys


def _let_head_extent(let_node):
    """Extent from `let` up to and including `in` of a let_expression node."""
    start = let_node.start_byte
    end = None
    for c in let_node.children:
        if c.type == "in":
            end = c.end_byte
    return (start, end if end is not None else let_node.end_byte)


def judge_tokens_scoped(dv_in: A.DocView, op, res, depth: int, segs: list[str], base_key: dict):
    """Scoped edit: everything outside the addressed layer binding (or the created / removed
    `let ... in` head) keeps its tokens and comments."""
    keys = []
    if res.exc_type is not None or res.out is None or dv_in.target is None:
        return keys
    dv_out = A.decode(res.out)
    if dv_out.error or dv_out.target is None:
        return keys
    rin = cst.read(res.before)
    rout = cst.read(res.out)
    cut_in = cut_out = None
    optional: set[int] = set()
    n_in, n_out = len(dv_in.layers), len(dv_out.layers)
    if op.kind == "set":
        if n_out == n_in + 1 and depth == 1 and n_in == 0:
            cut_out = _let_head_extent(dv_out.layer_nodes[-1])
            base_key["position"] = "layer-created"
        elif n_out == n_in and depth <= n_in:
            loc_in = J.find_written(dv_in.layers[-depth], segs)
            loc_out = J.find_written(dv_out.layers[-depth], segs)
            if loc_in is None and len(segs) > 1 and not any(
                    b.kind == "bind" and b.path and b.path[0] == segs[0] for b in dv_in.layers[-depth]):
                # a fresh dotted path whose root did not exist in the layer: the created root
                # binding (`root = { leaf = v; };`) is what the operation wrote
                loc_root = J.find_written(dv_out.layers[-depth], segs[:1])
                if loc_root is not None:
                    loc_out = loc_root
            if loc_out is None:
                return keys
            bo = loc_out[0][loc_out[1]]
            cut_out = (bo.start, bo.end)
            if loc_in is not None:
                bi = loc_in[0][loc_in[1]]
                cut_in = (bi.start, bi.end)
                optional = {off for off in attached_comments(rin, bi.start, bi.end)
                            if any(lf.start == off and _VALUE_COMMENT_RE.search(lf.text) for lf in rin.leaves)}
            base_key["position"] = "layer-binding"
        else:
            return keys
    else:
        if depth > n_in:
            return keys
        loc_in = J.find_written(dv_in.layers[-depth], segs)
        if loc_in is None:
            return keys
        if n_out == n_in - 1:
            cut_in = _let_head_extent(dv_in.layer_nodes[-depth])
            optional = attached_comments(rin, cut_in[0], cut_in[1])
            # comments inside the removed head belong to it
            for lf in rin.leaves:
                if lf.type == "comment" and cut_in[0] <= lf.start < cut_in[1]:
                    optional.add(lf.start)
            base_key["position"] = "layer-removed"
        else:
            bi = loc_in[0][loc_in[1]]
            cut_in = (bi.start, bi.end)
            optional = attached_comments(rin, bi.start, bi.end)
            base_key["position"] = "layer-binding"
    a_items = leaf_items(rin, cut_in)
    b_items = drop_value_comments(leaf_items(rout, cut_out), op)
    # a let created around a bare call argument has to be parenthesized to stay valid Nix:
    # the pair of parentheses directly around the let chain belongs to the created head
    # (and may go again when the chain is removed)
    def chain_parens(dv):
        node = dv.layer_nodes[0] if dv.layer_nodes else dv.target.node
        par = node.parent
        if par is not None and par.type == "parenthesized_expression" and par.parent is not None \
                and par.parent.type == "apply_expression":
            return {c.start_byte for c in par.children if c.type in ("(", ")")}
        return set()
    if base_key.get("position") == "layer-created":
        drop = chain_parens(dv_out)
        b_items = [it for it in b_items if it[2].start not in drop]
    elif base_key.get("position") == "layer-removed":
        drop_in = chain_parens(dv_in)
        drop_out = chain_parens(dv_out)
        a_items = [it for it in a_items if it[2].start not in drop_in]
        b_items = [it for it in b_items if it[2].start not in drop_out]
    bad = match_with_optional(a_items, b_items, optional)
    if bad is not None:
        i, j = bad
        ia = a_items[i] if i < len(a_items) else None
        ib = b_items[j] if j < len(b_items) else None
        k = dict(base_key)
        if ia is not None and ia[0] == "comment" and (ib is None or ib[1] != ia[1]):
            k["effect"] = "foreign-comment-lost"
            if cut_in is not None:
                idx = next((n for n, lf in enumerate(rin.leaves) if lf.start == ia[2].start), None)
                if idx and rin.leaves[idx - 1].type == "comment" and _VALUE_COMMENT_RE.search(rin.leaves[idx - 1].text) \
                        and cut_in[1] <= rin.leaves[idx - 1].start:
                    k["below_value_comment"] = "yes"
        elif ib is not None and ib[0] == "comment":
            k["effect"] = "foreign-comment-added-or-moved"
        else:
            k["effect"] = "foreign-token-changed"
        k["in_tok"] = ia[0] if ia else "<end>"
        k["out_tok"] = ib[0] if ib else "<end>"
        keys.append(k)
    # canonical file shape: the final newline state must not change
    if res.before.endswith("\n") != res.out.endswith("\n"):
        k = dict(base_key)
        k["effect"] = "final-newline-changed"
        keys.append(k)
    return keys


def _lines(text: str) -> list[str]:
    return text.split("\n")


def judge_bytes(dv_in: A.DocView, op, res, pred: M.Prediction, segs: list[str], base_key: dict):
    """Canonical input: output equals input except for the splice the operation defines."""
    keys = []
    if res.exc_type is not None or res.out is None or dv_in.target is None:
        return keys
    before = res.before
    data = before.encode()
    index = cst.LineIndex(data)
    loc_in = J.find_written(dv_in.target.bindings, segs)
    candidates: list[str] = []
    kind = None
    if op.kind == "set" and loc_in is not None and not pred.fresh:
        b = loc_in[0][loc_in[1]]
        if b.value_node is None or "\n" in op.value or _VALUE_COMMENT_RE.search(op.value.encode()):
            return keys
        vs, ve = b.value_node.start_byte, b.value_node.end_byte
        if index.row(vs) != index.row(ve - 1):
            return keys  # multi-line old value: token level only
        candidates.append((data[:vs] + op.value.encode() + data[ve:]).decode())
        kind = "replace"
    elif op.kind == "set" and pred.fresh and len(segs) == 1 and "\n" not in op.value \
            and not _VALUE_COMMENT_RE.search(op.value.encode()):
        tnode = dv_in.target.node
        r0 = index.row(tnode.start_byte)
        r1 = index.row(tnode.end_byte - 1)
        if r0 == r1:
            return keys  # inline / empty target set: token level only
        lines = _lines(before)
        close_line = lines[r1]
        indent = len(close_line) - len(close_line.lstrip(" ")) + 2
        new_line = " " * indent + f"{M.quote_segment(segs[0])} = {op.value};"
        candidates.append("\n".join(lines[:r1] + [new_line] + lines[r1:]))
        kind = "insert"
    elif op.kind == "rm" and loc_in is not None and len(loc_in[0]) > 1:
        b = loc_in[0][loc_in[1]]
        lines = _lines(before)
        first = index.row(b.start)
        last = index.row(b.end - 1)
        # the binding must own its lines
        if lines[first].strip() == "" or not lines[first].lstrip().startswith(
                before.encode()[b.start:b.start + 1].decode("utf-8", "replace")):
            return keys
        starts = [first]
        a = first
        while a - 1 >= 0:
            above = lines[a - 1].strip()
            if above.startswith("#"):
                a -= 1
            elif above.endswith("*/"):
                # a block comment, possibly over several lines: up to the line that opens it
                b0 = a - 1
                while b0 >= 0 and "/*" not in lines[b0]:
                    b0 -= 1
                if b0 < 0 or not lines[b0].lstrip().startswith("/*"):
                    break
                a = b0
            else:
                break
        if a != first:
            starts.append(a)
        for s0 in list(starts):
            if s0 - 1 >= 0 and lines[s0 - 1].strip() == "":
                starts.append(s0 - 1)
        ends = [last]
        if last + 1 < len(lines) and lines[last + 1].strip() == "":
            ends.append(last + 1)
        # trailing comments of the set directly after a last binding may go with it
        z = last
        while z + 1 < len(lines) and lines[z + 1].lstrip().startswith("#"):
            z += 1
        # (closing comments of the set are not attached to its last binding: not optional)
        for s0 in starts:
            for e0 in ends:
                candidates.append("\n".join(lines[:s0] + lines[e0 + 1:]))
        kind = "remove"
    if not candidates:
        return keys
    if res.out not in candidates:
        k = dict(base_key)
        k["effect"] = "byte-splice-mismatch"
        k["splice"] = kind
        # classify the first differing line
        exp = candidates[0]
        la, lb = _lines(exp), _lines(res.out)
        n = min(len(la), len(lb))
        d = next((i for i in range(n) if la[i] != lb[i]), n)
        ea = la[d] if d < len(la) else "<eof>"
        eb = lb[d] if d < len(lb) else "<eof>"
        if ea.strip() == eb.strip():
            k["diff"] = "indentation"
        elif ea.strip() == "" or eb.strip() == "":
            k["diff"] = "blank-line"
        elif ea.lstrip().startswith("#") or eb.lstrip().startswith("#"):
            k["diff"] = "comment-line"
        elif d >= len(la) - 1 or d >= len(lb) - 1:
            k["diff"] = "file-end"
        else:
            k["diff"] = "other-line"
        keys.append(k)
    return keys
