"""C18 spacing scanner over the gaps between adjacent CST leaves of an output."""

from __future__ import annotations

from nmverif.oracle import cst

OPENERS = {"{": "}", "[": "]", "(": ")"}
CLOSERS = {"}", "]", ")"}
SEQ_PARENTS = {"attrset_expression", "rec_attrset_expression", "binding_set", "list_expression",
               "let_expression", "formals", "let_attrset_expression"}


def scan(rd: cst.Reading) -> list[dict]:
    """Return spacing hits: {rule, prev, next, parent, offset}."""
    data = rd.data
    leaves = rd.leaves
    hits: list[dict] = []
    if not leaves:
        return hits

    def lca_type(a, b) -> str:
        if a is None or b is None:
            return "source_code"
        anc = set()
        n = a.node
        while n is not None:
            anc.add(n.id)
            n = n.parent
        n = b.node
        while n is not None:
            if n.id in anc:
                return n.type
            n = n.parent
        return "source_code"

    def hit(rule: str, a: cst.Leaf | None, b: cst.Leaf | None, off: int) -> None:
        hits.append({
            "lca": lca_type(a, b),
            "ckind": ("" if b is None or b.type != "comment" else
                      ("line" if b.text.startswith(b"#") else "block")),
            "rule": rule,
            "prev": a.type if a is not None else "",
            "next": b.type if b is not None else "",
            "parent": (b.parent if b is not None else (a.parent if a is not None else "")),
            "prev_parent": a.parent if a is not None else "",
            "offset": off,
        })

    first = leaves[0]
    if first.start > 0 and data[: first.start].strip(b" \t\r\n") == b"":
        hit("leading-whitespace", None, first, 0)

    # line start offsets and indentation of each line
    line_starts = [0]
    for i, ch in enumerate(data):
        if ch == 10:
            line_starts.append(i + 1)

    def line_indent(row: int) -> int:
        s = line_starts[row]
        e = s
        while e < len(data) and data[e] == 32:
            e += 1
        return e - s

    opener_stack: list[cst.Leaf] = []
    for i in range(len(leaves) - 1):
        a, b = leaves[i], leaves[i + 1]
        # keep the stack of openers for closer alignment (code tokens only)
        if not a.in_string and not a.str_interp and a.type in OPENERS \
                and a.parent != "interpolation":
            opener_stack.append(a)
        gap = data[a.end:b.start]
        in_str = (a.in_string and b.in_string)
        if in_str:
            continue
        if a.str_interp or b.str_interp:
            # interpolation inside a string / path: copied as string content, not judged
            continue
        if b"\t" in gap:
            hit("tab", a, b, a.end)
        if b"\r" in gap:
            hit("carriage-return", a, b, a.end)
        if b"\n" in gap:
            # trailing blanks at the end of a line
            segs = gap.split(b"\n")
            if segs[0].strip(b" \t\r") == b"" and segs[0] != b"":
                hit("trailing-whitespace", a, b, a.end)
            for seg in segs[1:-1]:
                if seg != b"" and seg.strip(b" \t\r") == b"":
                    hit("trailing-whitespace", a, b, a.end)
                    break
            if gap.count(b"\n") >= 3 and sum(1 for s in segs[1:-1] if s.strip(b" \t\r") == b"") >= 2:
                hit("blank-lines", a, b, a.end)
        else:
            if a.type != "comment" and b.type != "comment":
                if gap not in (b"", b" "):
                    hit("multi-space", a, b, a.end)
            elif gap not in (b"", b" "):
                # a comment sharing the line with code: padding around it is collapsed too
                hit("multi-space-at-comment", a, b, a.end)
            if b.type in (";", ":") and b.parent != "interpolation" and gap != b"" \
                    and a.type != "comment":
                hit("detached-" + ("semicolon" if b.type == ";" else "colon"), a, b, a.end)
        if not b.in_string and b.type in CLOSERS and b.parent != "interpolation":
            op = None
            if opener_stack and OPENERS.get(opener_stack[-1].type) == b.type:
                op = opener_stack.pop()
            if op is not None and b"\n" in gap and b.col0 == line_indent(b.row0):
                # judged only where the structure is unambiguous: the opener starts its own
                # line, or the opener's line starts with the binding that contains it
                op_line_indent = line_indent(op.row0)
                judged = op.col0 == op_line_indent
                if not judged and any(o.row0 == op.row0 for o in opener_stack):
                    # another container opened earlier on the same line is still open: which
                    # structure the closer belongs to is not unambiguous, not judged
                    pass
                elif not judged:
                    n = op.node
                    while n is not None:
                        if n.type in ("binding", "inherit", "inherit_from") and \
                                n.start_byte == line_starts[op.row0] + op_line_indent:
                            judged = True
                            break
                        n = n.parent
                if judged and b.col0 != op_line_indent:
                    hit("closer-indent", a, b, b.start)
        if b.type == "comment" and b"\n" in gap and b.parent in SEQ_PARENTS:
            # own-line comment between items of a sequence: indentation of the items
            nxt = leaves[i + 2] if i + 2 < len(leaves) else None
            if nxt is not None and nxt.row0 > b.row1 and nxt.type not in CLOSERS \
                    and nxt.type not in ("in",) and nxt.type != "comment":
                if nxt.col0 == line_indent(nxt.row0) and b.col0 != nxt.col0:
                    hit("comment-indent", a, b, b.start)
            elif nxt is not None and nxt.row0 > b.row1 and nxt.type in CLOSERS and not nxt.in_string \
                    and nxt.parent == b.parent and b.col0 == line_indent(b.row0) \
                    and nxt.col0 == line_indent(nxt.row0) and b.col0 != nxt.col0 + 2:
                # last thing in its container: one level deeper than the closer of that container
                hit("comment-indent-before-closer", a, b, b.start)
    # trailing whitespace at end of file
    last = leaves[-1]
    tail = data[last.end:]
    if tail not in (b"", b"\n"):
        if tail.strip(b" \t\r\n") == b"":
            if b"\t" in tail:
                hit("tab", last, None, last.end)
            if tail.count(b"\n") >= 3:
                hit("blank-lines", last, None, last.end)
            segs = tail.split(b"\n")
            if any(s != b"" for s in segs):
                hit("trailing-whitespace", last, None, last.end)
    return hits
