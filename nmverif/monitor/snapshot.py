"""Deep structural snapshot of an expression tree (for the purity contract)."""

from __future__ import annotations

import dataclasses

_SKIP_FIELDS = {"owner", "node"}


def snapshot(obj, depth: int = 0, seen=None):
    """Hashable structure of everything rebuild() could mutate."""
    if seen is None:
        seen = set()
    if obj is None or isinstance(obj, (str, int, float, bool, bytes)):
        return obj
    oid = id(obj)
    if oid in seen or depth > 200:
        return ("<cycle>", type(obj).__name__)
    t = type(obj)
    name = t.__name__
    if t.__module__.startswith("tree_sitter"):
        return ("<node>",)
    if name in ("EmptyLine", "Linebreak", "Comma"):
        return ("<layout>", name)
    seen = seen | {oid}
    if isinstance(obj, dict):
        return ("dict", tuple((k, snapshot(v, depth + 1, seen)) for k, v in obj.items()))
    if isinstance(obj, (list, tuple)):
        return (name, tuple(snapshot(v, depth + 1, seen) for v in obj))
    if isinstance(obj, (set, frozenset)):
        return (name, tuple(sorted(repr(snapshot(v, depth + 1, seen)) for v in obj)))
    if dataclasses.is_dataclass(obj):
        items = []
        for f in dataclasses.fields(obj):
            if f.name in _SKIP_FIELDS:
                continue
            try:
                val = getattr(obj, f.name)
            except AttributeError:
                continue
            items.append((f.name, snapshot(val, depth + 1, seen)))
        return (name, tuple(items))
    if hasattr(obj, "__dict__") and t.__module__.startswith("nix_manipulator"):
        return (name, tuple((k, snapshot(v, depth + 1, seen)) for k, v in sorted(vars(obj).items())
                      if k not in _SKIP_FIELDS))
    if t.__module__ == "pathlib" or name.endswith("Path"):
        return ("path", str(obj))
    return ("<opaque>", name)
