"""sys.monitoring probes: function coverage, step counters, yield injection."""

from __future__ import annotations

import os
import sys
import threading
import time

TOOL = 3
_mon = sys.monitoring


class FunctionCoverage:
    """Which nix_manipulator functions did the workload actually enter."""

    def __init__(self, prefix: str = "nix_manipulator"):
        self.prefix = os.sep + prefix + os.sep
        self.entered: set[str] = set()
        self._on = False

    def start(self) -> None:
        try:
            _mon.use_tool_id(TOOL, "nmverif-cov")
        except ValueError:
            return
        ev = _mon.events

        def on_start(code, offset):
            fn = code.co_filename
            if self.prefix in fn:
                mod = fn.split(self.prefix, 1)[1][:-3].replace(os.sep, ".")
                self.entered.add(f"{mod}:{code.co_qualname}")
            return _mon.DISABLE

        _mon.register_callback(TOOL, ev.PY_START, on_start)
        _mon.set_events(TOOL, ev.PY_START)
        self._on = True

    def stop(self) -> None:
        if not self._on:
            return
        _mon.set_events(TOOL, 0)
        _mon.register_callback(TOOL, _mon.events.PY_START, None)
        _mon.free_tool_id(TOOL)
        self._on = False


class StepCounter:
    """Count activations (PY_START, no DISABLE) of selected code objects."""

    def __init__(self, codes, tool: int = 4):
        self.codes = list(codes)
        self.tool = tool
        self.count = 0
        self.per: dict[str, int] = {}

    def __enter__(self):
        _mon.use_tool_id(self.tool, "nmverif-steps")
        ev = _mon.events

        def on_start(code, offset):
            self.count += 1

        _mon.register_callback(self.tool, ev.PY_START, on_start)
        for code in self.codes:
            _mon.set_local_events(self.tool, code, ev.PY_START)
        return self

    def __exit__(self, *exc):
        for code in self.codes:
            _mon.set_local_events(self.tool, code, 0)
        _mon.register_callback(self.tool, _mon.events.PY_START, None)
        _mon.free_tool_id(self.tool)
        return False


def code_objects_named(names: set[str], package_prefix: str = "nix_manipulator"):
    """Find code objects of functions/methods with the given __name__ in loaded repo modules."""
    import types

    seen = set()
    out = []
    for modname, mod in list(sys.modules.items()):
        if not modname.startswith(package_prefix) or mod is None:
            continue
        for obj in list(vars(mod).values()):
            cands = []
            if isinstance(obj, types.FunctionType):
                cands.append(obj)
            elif isinstance(obj, type):
                for attr in list(vars(obj).values()):
                    if isinstance(attr, types.FunctionType):
                        cands.append(attr)
                    elif isinstance(attr, (classmethod, staticmethod)):
                        cands.append(attr.__func__)
                    elif isinstance(attr, property):
                        for f in (attr.fget, attr.fset):
                            if f is not None:
                                cands.append(f)
            for fn in cands:
                code = getattr(fn, "__code__", None)
                if code is None or id(code) in seen:
                    continue
                if fn.__name__ in names and package_prefix in (code.co_filename or ""):
                    seen.add(id(code))
                    out.append(code)
    return out


class YieldInjector:
    """LINE-event callback on selected code objects that yields the GIL with probability p."""

    def __init__(self, codes, p: float, seed: int, tool: int = 5):
        import random

        self.codes = list(codes)
        self.p = p
        self.rng = random.Random(seed)
        self.tool = tool
        self.lines = 0
        self.yields = 0
        self.handoffs = 0
        self._last_thread = None
        self.overlap_pairs: set[tuple[str, str]] = set()
        self._active: dict[int, str] = {}
        self._lock = threading.Lock()

    def __enter__(self):
        _mon.use_tool_id(self.tool, "nmverif-yield")
        ev = _mon.events

        def on_line(code, line):
            tid = threading.get_ident()
            with self._lock:
                self.lines += 1
                if self._last_thread is not None and self._last_thread != tid:
                    self.handoffs += 1
                    other = self._active.get(self._last_thread)
                    if other is not None:
                        self.overlap_pairs.add((other, code.co_qualname))
                self._last_thread = tid
                self._active[tid] = code.co_qualname
                do_yield = self.rng.random() < self.p
                if do_yield:
                    self.yields += 1
            if do_yield:
                time.sleep(0)

        _mon.register_callback(self.tool, ev.LINE, on_line)
        for code in self.codes:
            _mon.set_local_events(self.tool, code, ev.LINE)
        return self

    def __exit__(self, *exc):
        for code in self.codes:
            _mon.set_local_events(self.tool, code, 0)
        _mon.register_callback(self.tool, _mon.events.LINE, None)
        _mon.free_tool_id(self.tool)
        return False
