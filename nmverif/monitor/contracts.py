"""icontract contracts applied in place to the repository's real classes (from the harness)."""

from __future__ import annotations

import itertools

import icontract

from nmverif.monitor.snapshot import snapshot


class PurityBroken(Exception):
    pass


class PurityMonitor:
    """snapshot + ensure on rebuild(): the tree must be field-for-field the same afterwards.

    Conditions record and return True so that the workload keeps running; evaluations are
    counted (zero evaluations = inconclusive)."""

    def __init__(self, sample_every: int = 8):
        self.sample_every = sample_every
        self.counter = itertools.count()
        self.evaluations = 0
        self.top_evaluations = 0
        self.violations: list[dict] = []
        self.installed: list[str] = []

    def _capture_top(self, self_):  # noqa: N805 - argument name must match the method's
        return snapshot(self_)

    def install(self):
        from nix_manipulator.expressions.source_code import NixSourceCode
        from nix_manipulator.mapping import EXPRESSION_TYPES
        from nix_manipulator.expressions.identifier import Identifier
        mon = self

        def capture_top(self):
            return snapshot(self)

        def unchanged_top(self, OLD):
            mon.evaluations += 1
            mon.top_evaluations += 1
            after = snapshot(self)
            if after != OLD.before:
                mon.violations.append({"cls": type(self).__name__, "level": "document"})
            return True

        NixSourceCode.rebuild = icontract.snapshot(capture_top, name="before")(
            icontract.ensure(unchanged_top, error=PurityBroken)(NixSourceCode.rebuild))
        self.installed.append("NixSourceCode.rebuild")

        def capture_sampled(self):
            if next(mon.counter) % mon.sample_every:
                return None
            return snapshot(self)

        def unchanged_sampled(self, OLD):
            if OLD.before is None:
                return True
            mon.evaluations += 1
            after = snapshot(self)
            if after != OLD.before:
                mon.violations.append({"cls": type(self).__name__, "level": "expression"})
            return True

        for cls in list(EXPRESSION_TYPES) + [Identifier]:
            fn = cls.__dict__.get("rebuild")
            if fn is None:
                continue
            try:
                wrapped = icontract.snapshot(capture_sampled, name="before")(
                    icontract.ensure(unchanged_sampled, error=PurityBroken)(fn))
                setattr(cls, "rebuild", wrapped)
                self.installed.append(f"{cls.__name__}.rebuild")
            except Exception:  # noqa: BLE001 - a class icontract cannot wrap is simply not monitored
                pass
        return self
