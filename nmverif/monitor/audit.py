"""sys.addaudithook recorder for `open` events (which files did a lookup really read)."""

from __future__ import annotations

import os
import sys

_EVENTS: list[str] = []
_ON = False
_INSTALLED = False


def _hook(event, args):
    if _ON and event == "open":
        path = args[0]
        if isinstance(path, (str, bytes, os.PathLike)):
            try:
                _EVENTS.append(os.fspath(path) if not isinstance(path, bytes) else path.decode())
            except Exception:  # noqa: BLE001
                pass


def install() -> None:
    global _INSTALLED
    if not _INSTALLED:
        sys.addaudithook(_hook)
        _INSTALLED = True


class Recording:
    def __enter__(self):
        global _ON
        install()
        _EVENTS.clear()
        _ON = True
        return self

    def __exit__(self, *exc):
        global _ON
        _ON = False
        self.events = list(_EVENTS)
        return False
