"""KNOWN_FINDINGS.txt parser and witness matcher.

Line formats (hand-written, never modified at run time):

  open: property=<id> id=<KFnnn> match=<json object> :: <what fails, with a reproducer>
  fixed: property=<id> <commit> <what failed>

A witness key (flat dict of strings) matches an `open` pattern when every key
of the pattern is present in the witness key and equal to it; a pattern value
may be "*" (anything), a list (any of), or a string starting with "~" (regex
search).  `fixed:` entries never suppress anything.
"""

from __future__ import annotations

import json
import os
import re
from dataclasses import dataclass, field

ROOT = os.path.dirname(os.path.dirname(os.path.abspath(__file__)))
PATH = os.path.join(ROOT, "KNOWN_FINDINGS.txt")


@dataclass
class Finding:
    property_id: str
    fid: str
    pattern: dict
    text: str
    hits: int = 0
    examples: list = field(default_factory=list)


def load(property_id: str | None = None, path: str = PATH) -> list[Finding]:
    out: list[Finding] = []
    if not os.path.exists(path):
        return out
    with open(path, encoding="utf-8") as fh:
        for raw in fh:
            line = raw.strip()
            if not line.startswith("open:"):
                continue
            m = re.match(r"open:\s+property=(\S+)\s+id=(\S+)\s+match=(\{.*?\})\s+::\s*(.*)$", line)
            if not m:
                raise ValueError(f"malformed known-finding line: {line[:120]}")
            pid, fid, pat, text = m.groups()
            if property_id is not None and pid != property_id:
                continue
            out.append(Finding(pid, fid, json.loads(pat), text))
    return out


def _value_matches(pat, val) -> bool:
    if pat == "*":
        return True
    if isinstance(pat, dict):
        # sub-pattern: the witness value is a list of dicts (gap descriptors); any may match
        if isinstance(val, list):
            return any(isinstance(v, dict) and matches(pat, v) for v in val)
        return isinstance(val, dict) and matches(pat, val)
    if isinstance(pat, list):
        return any(_value_matches(p, val) for p in pat)
    if isinstance(pat, str) and pat.startswith("not:"):
        return str(val) != pat[4:]
    if isinstance(pat, str) and pat.startswith("~"):
        return re.search(pat[1:], str(val)) is not None
    return pat == val


def matches(pattern: dict, key: dict) -> bool:
    for k, pv in pattern.items():
        if k not in key:
            return False
        if not _value_matches(pv, key[k]):
            return False
    return True


def classify(findings: list[Finding], key: dict) -> Finding | None:
    for f in findings:
        if matches(f.pattern, key):
            return f
    return None
