"""Shard fan-out, verdict discipline, evidence writer.

A check module provides:
  PROPERTY, LEVEL, RULE, ASSUMPTIONS, FLOORS (dict), SHARD_TIMEOUT (s)
  plan(tier, seed) -> list[dict]           shard specs (JSON)
  run_shard(spec) -> dict                   executed inside a worker subprocess
  replay(case) -> list[witness]             optional
  finalize(merged, tier) -> None            optional: cross-shard verdicts

Shard result: {"evaluations": int, "nontrivial": [hash ints], "witnesses": [
{"key": {...}, "case": {...}, "detail": str}], "observed": {counter: int | {k: int}},
"samples": [...], "inconclusive": int}
"""

from __future__ import annotations

import hashlib
import json
import os
import subprocess
import sys
import tempfile
import time
from concurrent.futures import ThreadPoolExecutor

from nmverif import findings as kf

ROOT = os.path.dirname(os.path.dirname(os.path.abspath(__file__)))
PY = os.environ.get("NIMA_PYTHON", "/venv/bin/python")
REPO = os.environ.get("NIMA_REPO", "/repo")
WORKERS = int(os.environ.get("NIMA_WORKERS", "16"))
# scratch runs against a modified copy of the repository (mutation testing) write elsewhere
OUT = os.environ.get("NIMA_OUT") or None


def _merge_observed(dst: dict, src: dict) -> None:
    for k, v in src.items():
        if isinstance(v, dict):
            d = dst.setdefault(k, {})
            _merge_observed(d, v)
        elif isinstance(v, list):
            cur = dst.setdefault(k, [])
            for item in v:
                if item not in cur and len(cur) < 400:
                    cur.append(item)
        elif isinstance(v, (int, float)):
            dst[k] = dst.get(k, 0) + v
        else:
            dst.setdefault(k, v)


def _run_one(prop: str, spec: dict, workdir: str, idx: int, timeout: float,
             retries: int = 10) -> dict:
    """Run one shard.  When the worker dies by a signal, the last text handed to the
    library (write-ahead log) is re-executed alone in a scratch interpreter; if that
    reproduces the death the input is quarantined (reported as an `interpreter-death`
    witness by the check) and the shard is re-run without it.  A death that does not
    reproduce is retried as is."""
    attempts = 0
    skip: list[str] = []
    deaths: list[dict] = []
    while True:
        r = _run_once(prop, spec, workdir, idx, timeout, skip)
        r["signal_retries"] = attempts
        r["deaths"] = deaths
        if r["status"] != "signal" or attempts >= retries:
            return r
        attempts += 1
        last = r.get("last_case") or ""
        if last.startswith("T "):
            try:
                text = json.loads(last[2:])
            except ValueError:
                text = None
            if text is not None and _confirm_death(text):
                import hashlib
                skip.append(hashlib.sha1(text.encode("utf-8", "replace")).hexdigest()[:20])
                deaths.append({"text": text, "signal": -(r["rc"] or 0)})


_CONFIRM = """
import sys, json
sys.path.insert(0, sys.argv[1])
from nix_manipulator import parse
t = json.loads(sys.stdin.read())
for _ in range(25):
    try:
        parse(t).rebuild()
    except Exception:
        pass
"""


def _confirm_death(text: str) -> bool:
    try:
        cp = subprocess.run([PY, "-c", _CONFIRM, REPO], input=json.dumps(text).encode(),
                            capture_output=True, timeout=300)
    except subprocess.TimeoutExpired:
        return False
    return cp.returncode < 0


def _run_once(prop: str, spec: dict, workdir: str, idx: int, timeout: float,
              skip: list[str] | None = None) -> dict:
    spec_path = os.path.join(workdir, f"spec{idx}.json")
    out_path = os.path.join(workdir, f"out{idx}.json")
    wal_path = os.path.join(workdir, f"wal{idx}.txt")
    for stale in (out_path, wal_path):
        if os.path.exists(stale):
            os.remove(stale)
    with open(spec_path, "w") as fh:
        json.dump(spec, fh)
    env = dict(os.environ)
    env["PYTHONPATH"] = ROOT + os.pathsep + os.path.join(ROOT, ".deps")
    env["PYTHONDONTWRITEBYTECODE"] = "1"
    env.setdefault("PYTHONHASHSEED", "0")
    env["NIMA_REPO"] = REPO
    env["NIMA_WAL"] = wal_path
    skip_path = os.path.join(workdir, f"skip{idx}.json")
    with open(skip_path, "w") as fh:
        json.dump(skip or [], fh)
    env["NIMA_SKIP_FILE"] = skip_path
    cmd = [PY, "-X", "faulthandler", "-m", "nmverif.worker", prop, spec_path, out_path]
    t0 = time.time()
    status = "ok"
    stderr_tail = ""
    try:
        cp = subprocess.run(cmd, env=env, cwd=ROOT, capture_output=True, timeout=timeout)
        rc = cp.returncode
        stderr_tail = cp.stderr.decode("utf-8", "replace")[-3000:]
        if rc < 0:
            status = "signal"
        elif rc != 0:
            status = "harness-error"
    except subprocess.TimeoutExpired as exc:
        status = "timeout"
        rc = None
        stderr_tail = (exc.stderr or b"").decode("utf-8", "replace")[-3000:]
    last_case = None
    if os.path.exists(wal_path):
        try:
            with open(wal_path, "rb") as fh:
                lines = fh.read().decode("utf-8", "replace").splitlines()
            if lines:
                last_case = lines[-1]
        except OSError:
            pass
    result = None
    if status == "ok" and os.path.exists(out_path):
        with open(out_path) as fh:
            result = json.load(fh)
    return {
        "idx": idx, "status": status, "rc": rc, "result": result, "last_case": last_case,
        "stderr": stderr_tail, "wall": time.time() - t0, "spec": spec,
    }


def _hash_key(obj) -> str:
    return hashlib.sha1(json.dumps(obj, sort_keys=True, default=str).encode()).hexdigest()[:16]


def execute(check, tier: str, seed: int) -> int:
    prop = check.PROPERTY
    t0 = time.time()
    specs = check.plan(tier, seed)
    timeout = getattr(check, "SHARD_TIMEOUT", 600) * (3 if tier == "thorough" else 1)
    workdir = tempfile.mkdtemp(prefix=f"nmverif-{prop}-")
    merged = {
        "evaluations": 0, "nontrivial": set(), "witnesses": [], "observed": {},
        "samples": [], "inconclusive": 0, "shards": len(specs), "shard_status": {},
    }
    harness_errors: list[str] = []
    try:
        with ThreadPoolExecutor(max_workers=WORKERS) as pool:
            futs = [pool.submit(_run_one, prop, spec, workdir, i, timeout)
                    for i, spec in enumerate(specs)]
            for fut in futs:
                r = fut.result()
                st = r["status"]
                for death in r.get("deaths", []):
                    merged["observed"]["interpreter_deaths_confirmed"] = (
                        merged["observed"].get("interpreter_deaths_confirmed", 0) + 1)
                    if len(merged.setdefault("deaths", [])) < 20:
                        merged["deaths"].append(death)
                if r.get("signal_retries"):
                    merged["observed"]["native_crash_retries"] = (
                        merged["observed"].get("native_crash_retries", 0) + r["signal_retries"])
                merged["shard_status"][st] = merged["shard_status"].get(st, 0) + 1
                if st == "ok" and r["result"] is not None:
                    res = r["result"]
                    merged["evaluations"] += res.get("evaluations", 0)
                    merged["nontrivial"].update(res.get("nontrivial", []))
                    merged["witnesses"].extend(res.get("witnesses", []))
                    _merge_observed(merged["observed"], res.get("observed", {}))
                    if len(merged["samples"]) < 12:
                        merged["samples"].extend(res.get("samples", [])[:3])
                    merged["inconclusive"] += res.get("inconclusive", 0)
                elif st == "signal":
                    w = {
                        "key": {"effect": "interpreter-death", "signal": str(-(r["rc"] or 0))},
                        "case": {"shard": r["spec"], "last_case": r["last_case"]},
                        "detail": r["stderr"][-1500:],
                    }
                    if getattr(check, "DEATH_IS_VIOLATION", False):
                        merged["witnesses"].append(w)
                    else:
                        merged["inconclusive"] += 1
                        harness_errors.append(f"shard {r['idx']} died by signal: {r['stderr'][-300:]}")
                elif st == "timeout":
                    merged["inconclusive"] += 1
                    w = {
                        "key": {"effect": "watchdog", "where": "shard"},
                        "case": {"shard": r["spec"], "last_case": r["last_case"]},
                        "detail": "shard watchdog fired",
                    }
                    if getattr(check, "TIMEOUT_IS_WITNESS", False):
                        merged["witnesses"].append(w)
                    harness_errors.append(f"shard {r['idx']} timeout; last case {r['last_case']}")
                else:
                    harness_errors.append(f"shard {r['idx']} harness error rc={r['rc']}: {r['stderr'][-1200:]}")
    finally:
        import shutil
        shutil.rmtree(workdir, ignore_errors=True)

    if hasattr(check, "finalize"):
        check.finalize(merged, tier)

    return conclude(check, tier, seed, merged, harness_errors, time.time() - t0)


def conclude(check, tier, seed, merged, harness_errors, wall) -> int:
    prop = check.PROPERTY
    known = kf.load(prop)
    violations = []
    for w in merged["witnesses"]:
        f = kf.classify(known, w["key"])
        if f is not None:
            f.hits += 1
            if len(f.examples) < 2:
                f.examples.append(w.get("case"))
        else:
            violations.append(w)

    # de-duplicate violations by key for reporting; keep all counts
    by_key: dict[str, list] = {}
    for w in violations:
        by_key.setdefault(_hash_key(w["key"]), []).append(w)

    replay_dir = os.path.join(OUT or ROOT, "replays", prop)
    lines: list[str] = []
    for f in known:
        lines.append(
            f"KNOWN-FINDING: property={prop} {f.fid} {f.text} [observed {f.hits}x this run]"
        )
    if by_key:
        os.makedirs(replay_dir, exist_ok=True)
    for h, ws in sorted(by_key.items()):
        w = min(ws, key=lambda x: len(json.dumps(x.get("case"), default=str)))
        path = os.path.join(replay_dir, f"{h}.json")
        with open(path, "w") as fh:
            json.dump({"property": prop, "key": w["key"], "case": w.get("case"),
                       "detail": w.get("detail"), "count": len(ws), "seed": seed, "tier": tier},
                      fh, indent=1, default=str)
        lines.append(f"VIOLATION property={prop} replay={os.path.relpath(path, OUT or ROOT)}"
                     f" key={json.dumps(w['key'], sort_keys=True)} count={len(ws)}")

    floors = getattr(check, "FLOORS", {})
    n_nontrivial = len(merged["nontrivial"])
    inconclusive_reasons: list[str] = []
    if harness_errors:
        bad = [e for e in harness_errors if "harness error" in e]
        if bad:
            inconclusive_reasons.append("harness-error")
        total = max(1, merged["shards"])
        n_to = merged["shard_status"].get("timeout", 0) + merged["shard_status"].get("signal", 0)
        if n_to / total > 0.01 and not getattr(check, "DEATH_IS_VIOLATION", False):
            inconclusive_reasons.append(f"{n_to}/{total} shards hit watchdog/signal")
    if n_nontrivial < floors.get("nontrivial", 2):
        inconclusive_reasons.append(
            f"distinct_nontrivial {n_nontrivial} < floor {floors.get('nontrivial', 2)}")
    for name, floor in floors.get("observed", {}).items():
        cur = merged["observed"]
        for part in name.split("."):
            cur = cur.get(part, 0) if isinstance(cur, dict) else 0
        val = len(cur) if isinstance(cur, (dict, list)) else cur
        if val < floor:
            inconclusive_reasons.append(f"monitor {name} observed {val} < floor {floor}")

    observed = merged["observed"]
    observed["known_findings_reobserved"] = {f.fid: f.hits for f in known}
    observed["shard_status"] = merged["shard_status"]
    observed["inconclusive_cases"] = merged["inconclusive"]
    evidence = {
        "property_id": prop,
        "tier": tier,
        "seed": seed,
        "level": check.LEVEL,
        "coverage": {
            "evaluations": merged["evaluations"],
            "distinct_nontrivial": n_nontrivial,
            "rule": check.RULE,
            "samples": merged["samples"][:12] or ["<none>"],
            "observed": observed,
            **({"exhaustive": True} if merged.get("exhaustive") else {}),
            **merged.get("extra_coverage", {}),
        },
        "assumptions": list(getattr(check, "ASSUMPTIONS", [])),
        "wall_s": round(wall, 2),
        "violations": len(violations),
        "verdict": ("violated" if violations else
                    ("inconclusive" if inconclusive_reasons else "held-on-observed")),
        "inconclusive_reasons": inconclusive_reasons,
        "witnesses_total": len(merged["witnesses"]),
        "witnesses_matched_known": len(merged["witnesses"]) - len(violations),
    }
    os.makedirs(os.path.join(OUT or ROOT, "evidence"), exist_ok=True)
    with open(os.path.join(OUT or ROOT, "evidence", f"{prop}.json"), "w") as fh:
        json.dump(evidence, fh, indent=1, default=str)

    for ln in lines:
        print(ln)
    for e in harness_errors[:10]:
        print("NOTE:", e.replace("\n", " | ")[:1500], file=sys.stderr)
    print(f"SUMMARY property={prop} tier={tier} seed={seed} evaluations={merged['evaluations']} "
          f"distinct_nontrivial={n_nontrivial} witnesses={len(merged['witnesses'])} "
          f"known={len(merged['witnesses']) - len(violations)} violations={len(violations)} "
          f"wall={wall:.1f}s")
    if violations:
        return 1
    if inconclusive_reasons:
        print(f"INCONCLUSIVE property={prop} reason={'; '.join(inconclusive_reasons)}")
        return 2
    return 0
