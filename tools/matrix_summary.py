#!/venv/bin/python
"""Counts per round of seeded changes: caught by the property's own check, by a sibling check
only, obsolete, not caught (from seeded/*/result.quick.json and meta.json)."""
import glob, json, os, re
ROOT = os.path.dirname(os.path.dirname(os.path.abspath(__file__)))
rounds = {}
heads = set()
for d in sorted(glob.glob(os.path.join(ROOT, "seeded", "C*-*m*"))):
    sid = os.path.basename(d)
    prop = sid.split("-")[0]
    m = re.match(r"C\d+-(r\d+)?m\d+", sid)
    rnd = (m.group(1) or "r1")
    meta = json.load(open(os.path.join(d, "meta.json")))
    rp = os.path.join(d, "result.quick.json")
    res = json.load(open(rp)) if os.path.exists(rp) else {}
    heads.add(res.get("repo_head"))
    row = rounds.setdefault(rnd, {"total": 0, "own": 0, "sibling": [], "obsolete": [], "missed": [], "stale": []})
    row["total"] += 1
    if meta.get("obsolete"):
        row["obsolete"].append(sid)
    elif not res.get("patch_applies", False):
        row["stale"].append(sid)
    elif prop in res.get("caught_by", []):
        row["own"] += 1
    elif res.get("caught_by"):
        row["sibling"].append(f"{sid} -> {', '.join(res['caught_by'])}")
    else:
        row["missed"].append(sid)
print("| round | changes | own check | sibling check only | obsolete | not caught |")
print("|---|---|---|---|---|---|")
for rnd in sorted(rounds):
    r = rounds[rnd]
    print(f"| {rnd} | {r['total']} | {r['own']} | {len(r['sibling'])}: {'; '.join(r['sibling']) or '-'} | "
          f"{', '.join(r['obsolete']) or '-'} | {', '.join(r['missed'] + r['stale']) or '-'} |")
print()
print("repository heads the results were taken at:", ", ".join(sorted(h for h in heads if h)))
