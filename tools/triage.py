#!/venv/bin/python
"""List the replay files of a property: key, count, minimal input, detail."""
import glob, json, sys
prop = sys.argv[1]
width = int(sys.argv[2]) if len(sys.argv) > 2 else 300
rows = []
for f in sorted(glob.glob(f"/verif/replays/{prop}/*.json")):
    d = json.load(open(f))
    rows.append(d)
rows.sort(key=lambda d: (d["key"].get("effect", ""), -d["count"]))
for d in rows:
    k = dict(d["key"])
    print(d["count"], json.dumps(k, sort_keys=True))
    c = d["case"] or {}
    print("    IN :", repr(c.get("text", c))[:width])
    print("    ", (d.get("detail") or "")[:width])
