#!/venv/bin/python
"""Harvest / confirm / evaluate seeded changes.

  tools/seeded.py harvest /tmp/mut3 r3 C03     copy /tmp/mut3/C03/_mutants/m* to seeded/C03-r3m*/
  tools/seeded.py run C03-m1 [tier] [extra check ids...]
        scratch worktree of /repo + patch; demo on /repo (expect 0) and on the mutant (expect 1);
        ./check <property> against the mutant with outputs redirected; result stored in
        seeded/<id>/result.json.  /repo itself is never modified.
"""
import json, os, shutil, subprocess, sys, hashlib, glob

ROOT = os.path.dirname(os.path.dirname(os.path.abspath(__file__)))
PY = "/venv/bin/python"


def sh(cmd, **kw):
    return subprocess.run(cmd, shell=isinstance(cmd, str), capture_output=True, text=True, **kw)


def harvest(prop, root="/tmp/mut", tag=""):
    for d in sorted(glob.glob(f"{root}/{prop}/_mutants/m*")):
        if not os.path.isdir(d):
            continue
        dst = os.path.join(ROOT, "seeded", f"{prop}-{tag}{os.path.basename(d)}")
        if os.path.exists(dst):
            print("exists, left alone", dst)
            continue
        os.makedirs(dst, exist_ok=True)
        for f in ("patch.diff", "demo.py", "meta.json"):
            if os.path.exists(os.path.join(d, f)):
                shutil.copy(os.path.join(d, f), os.path.join(dst, f))
        print("harvested", dst)


def run(sid, tier="quick", extra=()):
    d = os.path.join(ROOT, "seeded", sid)
    prop = sid.split("-")[0]
    patch = os.path.join(d, "patch.diff")
    tag = hashlib.md5((sid + tier).encode()).hexdigest()[:10]
    wt, out = f"/tmp/nmverif-seeded-{tag}", f"/tmp/nmverif-seeded-{tag}.out"
    shutil.rmtree(out, ignore_errors=True)
    sh(f"git -C /repo worktree remove --force {wt}")
    shutil.rmtree(wt, ignore_errors=True)
    sh("git -C /repo worktree prune")
    r = sh(f"git -C /repo worktree add -f --detach {wt} HEAD -q")
    if r.returncode:
        print("worktree failed", r.stderr)
        return 3
    result = {"id": sid, "property": prop, "tier": tier, "repo_head": sh("git -C /repo rev-parse --short HEAD").stdout.strip()}
    try:
        r = sh(f"git -C {wt} apply {patch}")
        result["patch_applies"] = r.returncode == 0
        if r.returncode:
            result["apply_error"] = r.stderr[:300]
        demo = os.path.join(d, "demo.py")
        if os.path.exists(demo) and result["patch_applies"]:
            for label, tree in (("clean", "/repo"), ("mutant", wt)):
                env = dict(os.environ, PYTHONPATH=tree, PYTHONHASHSEED="0")
                try:
                    rr = subprocess.run([PY, demo], env=env, cwd="/tmp", capture_output=True, text=True, timeout=600)
                    result[f"demo_{label}_exit"] = rr.returncode
                except subprocess.TimeoutExpired:
                    result[f"demo_{label}_exit"] = "timeout"
        os.makedirs(out, exist_ok=True)
        checks = {}
        if result["patch_applies"]:
            for cid in (prop,) + tuple(extra):
                env = dict(os.environ, NIMA_REPO=wt, NIMA_OUT=out)
                rr = subprocess.run(["./check", cid, "--tier", tier], cwd=ROOT, env=env, capture_output=True, text=True)
                lines = [ln for ln in rr.stdout.splitlines() if ln.startswith("VIOLATION")]
                summ = [ln for ln in rr.stdout.splitlines() if ln.startswith("SUMMARY")]
                checks[cid] = {"exit": rr.returncode, "violation_lines": len(lines),
                               "first": lines[0][:400] if lines else "", "summary": summ[-1] if summ else rr.stdout[-300:] + rr.stderr[-300:]}
        result["checks"] = checks
        result["caught_by"] = sorted(c for c, v in checks.items() if v["exit"] == 1)
    finally:
        sh(f"git -C /repo worktree remove --force {wt}")
        shutil.rmtree(wt, ignore_errors=True)
        shutil.rmtree(out, ignore_errors=True)
    # keep what other checks said about this change on the same repository head (sibling checks
    # are run separately from the property's own check)
    rp = os.path.join(d, f"result.{tier}.json")
    if os.path.exists(rp):
        try:
            old = json.load(open(rp))
            if old.get("repo_head") == result.get("repo_head") and old.get("patch_applies"):
                for cid, v in old.get("checks", {}).items():
                    result["checks"].setdefault(cid, v)
                result["caught_by"] = sorted(c for c, v in result["checks"].items() if v["exit"] == 1)
        except Exception:
            pass
    with open(rp, "w") as fh:
        json.dump(result, fh, indent=1)
    print(json.dumps({k: v for k, v in result.items() if k != "checks"}),
          {c: (v["exit"], v["violation_lines"]) for c, v in result.get("checks", {}).items()})
    return 0


if __name__ == "__main__":
    if sys.argv[1] == "harvest":
        # harvest <root> <tag> <property>...
        for p in sys.argv[4:]:
            harvest(p, sys.argv[2], sys.argv[3])
    elif sys.argv[1] == "run":
        sid = sys.argv[2]
        tier = sys.argv[3] if len(sys.argv) > 3 else "quick"
        sys.exit(run(sid, tier, tuple(sys.argv[4:])))
