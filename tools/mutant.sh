#!/bin/sh
# usage: tools/mutant.sh <patch.diff> <tier> <ID> [<ID>...]
# Applies the patch to a scratch worktree of /repo (HEAD + the patch), runs the named checks
# against it with outputs redirected to a scratch directory, prints one line per check, cleans up.
set -u
PATCH=$(readlink -f "$1"); TIER=$2; shift 2
TAG=$(echo "$PATCH" | md5sum | cut -c1-10)
WT=/tmp/nmverif-mutant-$TAG
OUT=/tmp/nmverif-mutant-$TAG.out
rm -rf "$WT" "$OUT"; git -C /repo worktree prune
git -C /repo worktree add -f --detach "$WT" HEAD -q || exit 3
if ! git -C "$WT" apply "$PATCH"; then echo "PATCH-DOES-NOT-APPLY $PATCH"; git -C /repo worktree remove --force "$WT"; exit 3; fi
mkdir -p "$OUT"
cd "$(dirname "$0")/.."
for ID in "$@"; do
  NIMA_REPO=$WT NIMA_OUT=$OUT ./check "$ID" --tier "$TIER" > "$OUT/$ID.log" 2>&1
  rc=$?
  nv=$(grep -c '^VIOLATION' "$OUT/$ID.log")
  first=$(grep -m1 '^VIOLATION' "$OUT/$ID.log" | cut -c1-260)
  echo "MUTANT $(basename $(dirname $PATCH)) check=$ID tier=$TIER exit=$rc violations=$nv :: $first"
done
git -C /repo worktree remove --force "$WT"; rm -rf "$OUT"
