#!/venv/bin/python
"""Regenerate MANIFEST.json from the table below (keeps it valid at all times)."""
import json, os
ROOT = os.path.dirname(os.path.dirname(os.path.abspath(__file__)))
props = {}
for line in open(os.path.join(ROOT, "properties.jsonl")):
    d = json.loads(line)
    props[d["id"]] = d

CHECKS = json.load(open(os.path.join(ROOT, "tools", "checks.json")))
NA = json.load(open(os.path.join(ROOT, "tools", "not_applicable.json")))

checks = []
for pid, c in sorted(CHECKS.items()):
    checks.append({
        "property_id": pid,
        "quick_cmd": f"./check {pid} --tier quick",
        "thorough_cmd": f"./check {pid} --tier thorough",
        "evidence_file": f"evidence/{pid}.json",
        "replay_cmd_template": f"./check {pid} --replay {{path}}",
        "engine": c["engine"],
        "level_claimed": {"category": c["level"], "text": c["text"], "design_ref": c.get("design_ref", f"DESIGN.md section 3 ({pid})")},
        "level_note": c["note"],
        "technique": c["technique"],
    })
claimed = set(CHECKS)
na = [{"property_id": pid, "reason": NA.get(pid, "check not built yet in this session; see DESIGN.md section 3 for the planned monitor")}
      for pid in sorted(props) if pid not in claimed]
manifest = {
    "version": 1,
    "setup_cmd": "./setup.sh",
    "hooks": {
        "guard": "NIMA_VERIF_MONITORS",
        "enable": "no hook code lives in the repository: each check inserts /repo (or $NIMA_REPO) at sys.path[0] in a fresh worker process and wraps the real functions from outside (boundary recorders, icontract contracts, sys.monitoring probes, audit hooks)",
        "baseline_off_cmd": "cd /repo && /venv/bin/python -m pytest -ra -q -p no:cacheprovider --timeout=900 --continue-on-collection-errors",
        "source_commits": [],
        "add_only": True,
    },
    "engines": json.load(open(os.path.join(ROOT, "tools", "engines.json"))),
    "checks": checks,
    "not_applicable": na,
    "notes": "Runtime monitoring only. Verdicts: exit 0 held on everything observed (KNOWN-FINDING lines for listed defects), exit 1 unlisted violation with replay file, exit 2 inconclusive (monitor floors not reached). Known findings: KNOWN_FINDINGS.txt. Genuine defects repaired in /repo: see the fixed: lines there.",
}
json.dump(manifest, open(os.path.join(ROOT, "MANIFEST.json"), "w"), indent=1)
print("checks:", len(checks), "not_applicable:", len(na))
