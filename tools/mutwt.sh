#!/bin/sh
# tools/mutwt.sh <seeded-id>  -> prints path of a scratch worktree with the patch applied (remove with: git -C /repo worktree remove --force <path>)
WT=/tmp/mw-$1
git -C /repo worktree remove --force $WT 2>/dev/null; rm -rf $WT
git -C /repo worktree add -f --detach $WT HEAD -q && git -C $WT apply /verif/seeded/$1/patch.diff && echo $WT
