#!/bin/bash
# tools/sweep.sh <ID> <tier> <seed...> : run a check over seeds, print exit codes and unique violation keys
id=$1; tier=$2; shift 2
rm -rf /verif/replays/$id
for s in "$@"; do
  /verif/check $id --tier $tier --seed $s > /tmp/sweep.$id.$s.out 2>&1
  echo "seed $s exit $? $(grep -E '^SUMMARY' /tmp/sweep.$id.$s.out | sed 's/.*evaluations/evaluations/')"
  grep -E '^INCONCLUSIVE' /tmp/sweep.$id.$s.out
done
cat /tmp/sweep.$id.*.out | grep '^VIOLATION' | sed 's/replay=[^ ]* //; s/ count=.*//' | sort | uniq -c | sort -rn | cut -c1-700
