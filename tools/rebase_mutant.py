#!/venv/bin/python
"""Regenerate seeded/<id>/patch.diff from seeded/<id>/rebase.json against /repo HEAD.

rebase.json: {"file": "nix_manipulator/...", "old": "<exact snippet on HEAD>", "new": "<mutated snippet>"}
Used when a repair in /repo moved the code a seeded change touches: the mutation itself is the
same, only its context changed.  The original patch is kept as patch.original.diff."""
import json, os, shutil, subprocess, sys
ROOT = os.path.dirname(os.path.dirname(os.path.abspath(__file__)))
for sid in sys.argv[1:]:
    d = os.path.join(ROOT, "seeded", sid)
    spec = json.load(open(os.path.join(d, "rebase.json")))
    wt = f"/tmp/nmverif-rebase-{sid}"
    subprocess.run(f"git -C /repo worktree remove --force {wt}", shell=True, capture_output=True)
    shutil.rmtree(wt, ignore_errors=True)
    subprocess.run(f"git -C /repo worktree add -f --detach {wt} HEAD -q", shell=True, check=True)
    try:
        p = os.path.join(wt, spec["file"])
        s = open(p).read()
        assert s.count(spec["old"]) == 1, f"{sid}: snippet found {s.count(spec['old'])} times"
        open(p, "w").write(s.replace(spec["old"], spec["new"], 1))
        diff = subprocess.run(["git", "-C", wt, "diff"], capture_output=True, text=True).stdout
        if not os.path.exists(os.path.join(d, "patch.original.diff")):
            shutil.copy(os.path.join(d, "patch.diff"), os.path.join(d, "patch.original.diff"))
        open(os.path.join(d, "patch.diff"), "w").write(diff)
        print("rebased", sid, len(diff.splitlines()), "lines")
    finally:
        subprocess.run(f"git -C /repo worktree remove --force {wt}", shell=True, capture_output=True)
