#!/venv/bin/python
"""Compact summary of replay files: group by selected key fields."""
import glob, json, sys, collections
prop = sys.argv[1]
fields = sys.argv[2].split(",")
rows = collections.defaultdict(lambda: [0, set(), None])
for f in sorted(glob.glob(f"/verif/replays/{prop}/*.json")):
    d = json.load(open(f))
    k = d["key"]
    sig = tuple(str(k.get(x, "")) if x != "gaps" else json.dumps([{kk: g[kk] for kk in ("lca","prev","next","cls")} for g in k.get("gaps", [])]) for x in fields)
    r = rows[sig]
    r[0] += d["count"]
    r[1].add((k.get("kind", ""), k.get("placement", "")))
    c = d["case"] or {}
    t = c.get("text", "")
    if r[2] is None or len(t) < len(r[2][0]):
        r[2] = (t, d.get("detail", ""))
for sig, r in sorted(rows.items(), key=lambda kv: (kv[0][0], -kv[1][0])):
    print(r[0], " | ".join(sig), "|| kinds:", ",".join(sorted({a for a, b in r[1]})), "|| plc:", ",".join(sorted({b for a, b in r[1]})))
    print("     IN:", repr(r[2][0])[:230])
    print("     ", r[2][1][:230])
