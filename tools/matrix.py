#!/venv/bin/python
"""Markdown table of the seeded changes and which checks caught them (from seeded/*/result.<tier>.json)."""
import glob, json, os, sys
ROOT = os.path.dirname(os.path.dirname(os.path.abspath(__file__)))
tier = sys.argv[1] if len(sys.argv) > 1 else "quick"
rows = []
for d in sorted(glob.glob(os.path.join(ROOT, "seeded", "C*-*m*"))):
    sid = os.path.basename(d)
    try:
        meta = json.load(open(os.path.join(d, "meta.json")))
    except Exception:
        meta = {}
    rp = os.path.join(d, f"result.{tier}.json")
    res = json.load(open(rp)) if os.path.exists(rp) else {}
    caught = ", ".join(res.get("caught_by", [])) or ("-" if res else "not run")
    extra = ""
    if meta.get("obsolete"):
        caught = "obsolete: " + meta["obsolete"]
    demo = f"{res.get('demo_clean_exit', '?')}/{res.get('demo_mutant_exit', '?')}"
    summary = (meta.get("summary") or "").replace("|", "/").replace("\n", " ")[:150]
    needs = (meta.get("needs_to_manifest") or "").replace("|", "/").replace("\n", " ")[:140]
    rows.append(f"| {sid} | {summary} | {needs} | {demo} | {caught} |")
print("| id | change | needs to manifest | demo clean/mutant | caught by (quick tier) |")
print("|---|---|---|---|---|")
print("\n".join(rows))
