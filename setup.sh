#!/bin/sh
# Offline set-up: contracts library beside the repository's interpreter.
HERE="$(cd "$(dirname "$0")" && pwd)"
cd "$HERE" || exit 1
if [ ! -d .deps/icontract ]; then
  PIP_NO_INDEX=1 /venv/bin/pip install --quiet --no-index --find-links /opt/veriftools/wheels \
    --target "$HERE/.deps" icontract deal >/dev/null 2>&1 || \
  PIP_NO_INDEX=1 /venv/bin/pip install --quiet --no-index --find-links /opt/veriftools/wheels \
    --target "$HERE/.deps" icontract || exit 1
fi
/venv/bin/python -c "import sys; sys.path.insert(0, '$HERE/.deps'); import icontract" || exit 1
echo "setup ok"
